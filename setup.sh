#!/bin/sh
# Offline setup: builds the harness (plain and -race) from files on disk and runs the
# oracle self-test (refchess perft gate, curated corpus validity).
export GOFLAGS=-mod=mod GOPROXY=off GOSUMDB=off GOTOOLCHAIN=local
V="$(cd "$(dirname "$0")" && pwd)"
export VERIF_ROOT="$V"
mkdir -p $V/build $V/evidence $V/run
cd $V/harness || exit 2
go build -tags verif -o $V/build/vh ./cmd/vh || exit 2
go build -race -tags verif -o $V/build/vh-race ./cmd/vh || exit 2
go test ./refchess/ || exit 2
$V/build/vh selftest || exit 2
echo setup ok
