#!/bin/sh
# usage: tools/seeded_matrix.sh [name-glob]   (runs on the scratch pair of try_seeded2.sh)
# For every stored seeded change: apply it, run the quick checks of the properties named in
# caught_by (or of its own property), and print whether at least one of them reports a violation.
cd /verif
for d in seeded/${1:-*}/; do
  n=$(basename $d)
  ids=$(python3 -c "
import json,re,sys
m=json.load(open('$d/meta.json'))
ids=[]
for c in m.get('caught_by',[]):
    mm=re.match(r'(C\d\d)',c)
    if mm and mm.group(1) not in ids: ids.append(mm.group(1))
if not ids: ids=[re.match(r'(C\d\d)',m.get('property','$n')).group(1)] if re.match(r'(C\d\d)',m.get('property','$n')) else []
print(' '.join(ids[:2]))")
  [ -z "$ids" ] && { echo "$n NO-IDS"; continue; }
  out=$(tools/try_seeded2.sh /verif/$d/patch.diff quick $ids 2>&1)
  if echo "$out" | grep -q "patch does not apply"; then echo "$n PATCH-DOES-NOT-APPLY"; continue; fi
  if echo "$out" | grep -q "rc=1"; then echo "$n CAUGHT $(echo "$out" | grep 'rc=1' | head -1 | cut -c1-110)"; else echo "$n MISSED $(echo "$out" | tr '\n' ' ' | cut -c1-160)"; fi
done
