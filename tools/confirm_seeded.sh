#!/bin/sh
# usage: confirm_seeded.sh <ID> <pkg patterns...>   (runs in /tmp/wt/<ID>)
# Confirms: patch == working tree change; builds; demo FAILS with change and PASSES without;
# existing tests of the given packages (demo skipped) show no stable-baseline failure.
export GOFLAGS=-mod=mod GOPROXY=off GOSUMDB=off GOTOOLCHAIN=local
id=$1; shift
cd ${WT:-/tmp/wt}/$id || exit 2
L=${WT:-/tmp/wt}/$id/confirm.log; : > $L
git diff -- internal > ${WT:-/tmp/wt}/$id/current.diff
if ! diff -q ${WT:-/tmp/wt}/$id/current.diff ${WT:-/tmp/wt}/$id/patch.diff >/dev/null; then echo "NOTE patch.diff differs from working tree diff (using working tree diff)" >> $L; cp ${WT:-/tmp/wt}/$id/current.diff ${WT:-/tmp/wt}/$id/patch.diff; fi
demo=$(python3 -c "import json;print(json.load(open('meta.json'))['demo_cmd'])")
echo "demo_cmd: $demo" >> $L
go build ./... >> $L 2>&1 && echo "BUILD ok" >> $L || echo "BUILD FAILED" >> $L
( eval "$demo" ) > ${WT:-/tmp/wt}/$id/demo_with.log 2>&1; echo "DEMO with change rc=$?" >> $L
git apply -R patch.diff || echo "REVERT FAILED" >> $L
( eval "$demo" ) > ${WT:-/tmp/wt}/$id/demo_without.log 2>&1; echo "DEMO without change rc=$?" >> $L
git apply patch.diff || echo "REAPPLY FAILED" >> $L
go test -json -vet=off -count=1 -timeout 40m -skip "Seeded|TestTimingTTSize|TestWACTests|TestCrafty|TestECM|TestNullMove|TestSTS|TestArasan|TestFranky|TestEndGame|TestStressTests" "$@" > ${WT:-/tmp/wt}/$id/tests.json 2>${WT:-/tmp/wt}/$id/tests.err
python3 /verif/tools/baseline_cmp.py ${WT:-/tmp/wt}/$id/tests.json >> $L 2>&1
echo DONE >> $L
