import sys
def rd(p): return open(p).read()
def wr(p,s): open(p,'w').write(s)
AB='/repo/internal/search/alphabeta.go'
SE='/repo/internal/search/search.go'
def rep(s,old,new,cnt=1):
    assert s.count(old)==cnt,(s.count(old),old[:80])
    return s.replace(old,new)

def d14():
    s=rd(AB)
    s=rep(s,'''	// prepare move loop
	var value Value
	movesSearched := 0

	// ///////////////////////////////////////////////////////
	// MOVE LOOP
	for move := myMg.GetNextMove(p, movegen.GenAll, hasCheck);''','''	// prepare move loop
	var value Value
	movesSearched := 0
	// moves skipped by forward pruning before they were tested for legality
	movesPruned := 0

	// ///////////////////////////////////////////////////////
	// MOVE LOOP
	for move := myMg.GetNextMove(p, movegen.GenAll, hasCheck);''')
    s=rep(s,'''					s.statistics.FpPrunings++
					continue''','''					s.statistics.FpPrunings++
					movesPruned++
					continue''')
    s=rep(s,'''					s.statistics.LmpCuts++
					continue''','''					s.statistics.LmpCuts++
					movesPruned++
					continue''')
    s=rep(s,'''	// then we might have a mate or stalemate
	if movesSearched == 0 && !s.stopConditions() {
		if p.HasCheck() { // mate''','''	// then we might have a mate or stalemate
	// (not if moves were pruned untested - they might have been legal)
	if movesSearched == 0 && movesPruned == 0 && !s.stopConditions() {
		if p.HasCheck() { // mate''')
    wr(AB,s)

def d15():
    s=rd(AB)
    lines=s.split('\n'); out=[]; i=0; n=0
    while i<len(lines):
        l=lines[i]; out.append(l)
        if 'checkDrawRepAnd50(p, 2) {' in l and lines[i+1].strip()=='value = ValueDraw':
            out.append(lines[i+1])
            indent=lines[i+1][:len(lines[i+1])-len(lines[i+1].lstrip())]
            if i<110: out.append(indent+'s.pv[1].Clear() // no child search - no continuation')
            else: out.append(indent+'s.pv[ply+1].Clear() // no child search - no continuation')
            n+=1; i+=2; continue
        i+=1
    assert n==3,n
    s='\n'.join(out)
    old='''	// Check if search should be stopped
	if s.stopConditions() {
		return ValueNA
	}

	// Enter quiescence search when depth == 0 or max ply has been reached'''
    s=rep(s,old,'''	// The pv of this ply must not survive from an earlier node of the same
	// ply: the early exits below (stop, mate distance pruning, reverse futility
	// pruning, null move cut) return without touching it and the parent node
	// would append the stale line to its own pv.
	s.pv[ply].Clear()

'''+old)
    s=rep(s,'''	if s.statistics.CurrentExtraSearchDepth < ply {
		s.statistics.CurrentExtraSearchDepth = ply
	}
''','''	if s.statistics.CurrentExtraSearchDepth < ply {
		s.statistics.CurrentExtraSearchDepth = ply
	}

	// The pv of this ply must not survive from an earlier node of the same
	// ply: the early exits below (no quiescence, mate distance pruning, stand
	// pat, tt cut) return without touching it and the parent node would
	// append the stale line to its own pv.
	s.pv[ply].Clear()
''')
    wr(AB,s)

def d16():
    s=rd(SE)
    s=rep(s,'''		msg := "Search called on DRAW by Repetition or 50-moves-rule"
		s.sendInfoStringToUci(msg)
		s.log.Warning(msg)
		result = &Result{BestValue: ValueDraw}
		return result
	}
''','''		// we only report this - when asked for a move we still have to
		// search and answer with a legal move if there is one
		msg := "Search called on DRAW by Repetition or 50-moves-rule"
		s.sendInfoStringToUci(msg)
		s.log.Warning(msg)
	}
''')
    wr(SE,s)


def d17a():
    s=rd(SE)
    old='''	// add some extra time for the move after the last book move'''
    new='''	// restrict the root moves to the moves given with the search limits
	// (UCI searchmoves) - ignored if none of the given moves is legal here
	if s.searchLimits.Moves.Len() > 0 {
		isListed := func(i int) bool {
			for _, m := range s.searchLimits.Moves {
				if m.MoveOf() == s.rootMoves.At(i).MoveOf() {
					return true
				}
			}
			return false
		}
		listed := 0
		s.rootMoves.ForEach(func(i int) {
			if isListed(i) {
				listed++
			}
		})
		if listed > 0 {
			s.rootMoves.Filter(isListed)
		}
	}

	// add some extra time for the move after the last book move'''
    s=rep(s,old,new)
    wr(SE,s)

def d17b():
    s=rd(SE)
    old='''		// time left for current player
		var timeLeft time.Duration
		switch p.NextPlayer() {
		case White:
			timeLeft = sl.WhiteTime + time.Duration(movesLeft*sl.WhiteInc.Nanoseconds())
		case Black:
			timeLeft = sl.BlackTime + time.Duration(movesLeft*sl.BlackInc.Nanoseconds())
		}'''
    new='''		// time left for current player
		var timeLeft time.Duration
		var clockTime time.Duration
		switch p.NextPlayer() {
		case White:
			clockTime = sl.WhiteTime
			timeLeft = sl.WhiteTime + time.Duration(movesLeft*sl.WhiteInc.Nanoseconds())
		case Black:
			clockTime = sl.BlackTime
			timeLeft = sl.BlackTime + time.Duration(movesLeft*sl.BlackInc.Nanoseconds())
		}'''
    s=rep(s,old,new)
    old='''		// estimate time per move
		timeLimit := time.Duration(timeLeft.Nanoseconds() / movesLeft)
'''
    new='''		// estimate time per move
		timeLimit := time.Duration(timeLeft.Nanoseconds() / movesLeft)
		// the increment is only credited after the move has been made - we can
		// never use more than what is on the clock right now
		if timeLimit > clockTime {
			timeLimit = clockTime
		}
'''
    s=rep(s,old,new)
    wr(SE,s)


def life():
    s=rd(SE)
    s=rep(s,'''import (
	"context"
	"math/rand"
	"time"
''','''import (
	"context"
	"math/rand"
	"sync/atomic"
	"time"
''')
    s=rep(s,'''	stopFlag          bool
''','''	// stop flag (lowest bit) and number of the current search (other bits) in
	// one word which is only accessed atomically: controller, search and timer
	// go routines all use it and a timer must only be able to stop the search
	// it has been started for
	stopState         uint64
''')
    s=rep(s,'''		stopFlag:          false,
''','''		stopState:         0,
''')
    s=rep(s,'''	s.stopFlag = true
	s.WaitWhileSearching()''','''	s.requestStop()
	s.WaitWhileSearching()''')
    s=rep(s,'''	s.stopFlag = false
''','''	s.newSearchGeneration()
''')
    s=rep(s,'''	s.timeLimit = 0
	s.extraTime = 0
	s.nodesVisited = 0''','''	s.setTimeLimit(0)
	s.setExtraTime(0)
	s.nodesVisited = 0''')
    s=rep(s,'''	if (s.searchLimits.Ponder || s.searchLimits.Infinite) && !s.stopFlag {''','''	if (s.searchLimits.Ponder || s.searchLimits.Infinite) && !s.stopRequested() {''')
    s=rep(s,'''		for !s.stopFlag && (s.searchLimits.Ponder || s.searchLimits.Infinite) {''','''		for !s.stopRequested() && (s.searchLimits.Ponder || s.searchLimits.Infinite) {''')
    s=rep(s,'''	// when search finished without any stop signal/limit
	s.stopFlag = true
''','''	// when search finished without any stop signal/limit
	s.requestStop()
''')
    s=rep(s,'''			s.timeLimit.Milliseconds(), 2*s.timeLimit.Milliseconds()))''','''			s.getTimeLimit().Milliseconds(), 2*s.getTimeLimit().Milliseconds()))''')
    s=rep(s,'''	if s.stopFlag {
		return true
	}
	if s.searchLimits.Nodes > 0 && s.nodesVisited >= s.searchLimits.Nodes {
		s.stopFlag = true
	}
	return s.stopFlag
}''','''	if s.stopRequested() {
		return true
	}
	if s.searchLimits.Nodes > 0 && s.nodesVisited >= s.searchLimits.Nodes {
		s.requestStop()
	}
	return s.stopRequested()
}

// stopRequested tells if the current search has been asked to stop.
func (s *Search) stopRequested() bool {
	return atomic.LoadUint64(&s.stopState)&1 != 0
}

// requestStop sets the stop flag of the current search.
func (s *Search) requestStop() {
	for {
		old := atomic.LoadUint64(&s.stopState)
		if old&1 != 0 || atomic.CompareAndSwapUint64(&s.stopState, old, old|1) {
			return
		}
	}
}

// requestStopFor sets the stop flag only if the search with the given
// number is still the current search and returns true if it did.
func (s *Search) requestStopFor(searchNumber uint64) bool {
	return atomic.CompareAndSwapUint64(&s.stopState, searchNumber<<1, searchNumber<<1|1)
}

// newSearchGeneration clears the stop flag and gives the search which is
// about to start a new number.
func (s *Search) newSearchGeneration() {
	for {
		old := atomic.LoadUint64(&s.stopState)
		if atomic.CompareAndSwapUint64(&s.stopState, old, ((old>>1)+1)<<1) {
			return
		}
	}
}

// currentSearchNumber returns the number of the current search.
func (s *Search) currentSearchNumber() uint64 {
	return atomic.LoadUint64(&s.stopState) >> 1
}

// timeLimit and extraTime are written by the search and read by the timer.
func (s *Search) getTimeLimit() time.Duration {
	return time.Duration(atomic.LoadInt64((*int64)(&s.timeLimit)))
}

func (s *Search) setTimeLimit(d time.Duration) {
	atomic.StoreInt64((*int64)(&s.timeLimit), int64(d))
}

func (s *Search) getExtraTime() time.Duration {
	return time.Duration(atomic.LoadInt64((*int64)(&s.extraTime)))
}

func (s *Search) setExtraTime(d time.Duration) {
	atomic.StoreInt64((*int64)(&s.extraTime), int64(d))
}''')
    s=rep(s,'''		s.timeLimit = s.setupTimeControl(position, sl)
		s.extraTime = 0''','''		s.setTimeLimit(s.setupTimeControl(position, sl))
		s.setExtraTime(0)''')
    s=rep(s,'''			s.log.Info(out.Sprintf("Search mode: Time limit     : %s", s.timeLimit))''','''			s.log.Info(out.Sprintf("Search mode: Time limit     : %s", s.getTimeLimit()))''')
    s=rep(s,'''		duration := time.Duration(int64((f - 1.0) * float64(s.timeLimit.Nanoseconds())))
		s.extraTime += duration
		s.log.Debugf(out.Sprintf("Time added/reduced by %s to %s ",
			duration, s.timeLimit+s.extraTime))''','''		duration := time.Duration(int64((f - 1.0) * float64(s.getTimeLimit().Nanoseconds())))
		s.setExtraTime(s.getExtraTime() + duration)
		s.log.Debugf(out.Sprintf("Time added/reduced by %s to %s ",
			duration, s.getTimeLimit()+s.getExtraTime()))''')
    # timer
    s=rep(s,'''func (s *Search) startTimer() {
	go func() {
		timerStart := time.Now()''','''func (s *Search) startTimer() {
	// the timer belongs to the search which is current now - it must neither
	// watch nor stop any later search
	mySearch := s.currentSearchNumber()
	go func() {
		timerStart := time.Now()''')
    s=rep(s,'''			verifTrace("timer-start", verifTimerID, int64(s.timeLimit+s.extraTime))''','''			verifTrace("timer-start", verifTimerID, int64(s.getTimeLimit()+s.getExtraTime()))''')
    s=rep(s,'''		s.log.Debugf("Timer started with time limit of %s", s.timeLimit)''','''		s.log.Debugf("Timer started with time limit of %s", s.getTimeLimit())''')
    s=rep(s,'''		for time.Since(timerStart) < s.timeLimit+s.extraTime && !s.stopFlag {
			time.Sleep(5 * time.Millisecond)
		}
		if s.stopFlag {
			s.log.Debugf("Timer stopped early after wall time: %s (time limit %s and extra time %s)",
				time.Since(timerStart), s.timeLimit, s.extraTime)''','''		for s.currentSearchNumber() == mySearch && !s.stopRequested() &&
			time.Since(timerStart) < s.getTimeLimit()+s.getExtraTime() {
			time.Sleep(5 * time.Millisecond)
		}
		if s.currentSearchNumber() != mySearch || s.stopRequested() {
			s.log.Debugf("Timer stopped early after wall time: %s",
				time.Since(timerStart))''')
    s=rep(s,'''			s.log.Debugf("Timer stops search after wall time: %s (time limit %s and extra time %s)",
				time.Since(timerStart), s.timeLimit, s.extraTime)''','''			s.log.Debugf("Timer stops search after wall time: %s (time limit %s and extra time %s)",
				time.Since(timerStart), s.getTimeLimit(), s.getExtraTime())''')
    s=rep(s,'''			s.stopFlag = true
		}
	}()''','''			s.requestStopFor(mySearch)
		}
	}()''')
    wr(SE,s)


UCI='/repo/internal/uci/uci.go'
def ucisend():
    s=rd(UCI)
    s=rep(s,'''	"strconv"
	"strings"
	"time"
''','''	"strconv"
	"strings"
	"sync"
	"time"
''')
    s=rep(s,'''	myPerft    *movegen.Perft
	uciLog     *logging.Logger
}''','''	myPerft    *movegen.Perft
	uciLog     *logging.Logger
	// the search go routine (info, bestmove) and the command loop (readyok,
	// info strings) both write to OutIo
	sendMutex sync.Mutex
}''')
    s=rep(s,'''func (u *UciHandler) send(s string) {
	u.uciLog.Infof(">> %s", s)
''','''func (u *UciHandler) send(s string) {
	u.sendMutex.Lock()
	defer u.sendMutex.Unlock()
	u.uciLog.Infof(">> %s", s)
''')
    wr(UCI,s)


OPT='/repo/internal/uci/ucioption.go'
def d9():
    s=rd(UCI)
    s=rep(s,'''	fen := position.StartFen
	i := 1
	switch tokens[i] {
	case "startpos":''','''	fen := position.StartFen
	i := 1
	if len(tokens) < 2 {
		msg := out.Sprintf("Command 'position' malformed. %s", tokens)
		u.SendInfoString(msg)
		log.Warning(msg)
		return
	}
	switch tokens[i] {
	case "startpos":''')
    s=rep(s,'''	u.myPosition, _ = position.NewPositionFen(fen)
''','''	newPosition, err := position.NewPositionFen(fen)
	if err != nil {
		// keep the position we have
		msg := out.Sprintf("Command 'position' malformed. Invalid fen '%s' (%s)", fen, err)
		u.SendInfoString(msg)
		log.Warning(msg)
		return
	}
	u.myPosition = newPosition
''')
    # readSearchLimits: every sub command with an argument checks that the argument exists
    s=rep(s,'''	searchLimits := search.NewSearchLimits()
	i := 1
	for i < len(tokens) {
		var err error = nil
		switch tokens[i] {''','''	searchLimits := search.NewSearchLimits()
	i := 1
	for i < len(tokens) {
		var err error = nil
		// all sub commands but these need an argument
		if tokens[i] != "moves" && tokens[i] != "infinite" && tokens[i] != "ponder" && i+1 >= len(tokens) {
			msg := out.Sprintf("UCI command go malformed. Value missing for: %s", tokens[i])
			u.SendInfoString(msg)
			log.Warning(msg)
			return nil, true
		}
		switch tokens[i] {''')
    wr(UCI,s)
    s=rd(OPT)
    s=rep(s,'''	v, _ := strconv.Atoi(o.CurrentValue)
	Settings.Search.TTSize = v
	u.mySearch.ResizeCache()''','''	v, _ := strconv.Atoi(o.CurrentValue)
	// keep the size within the advertised range
	if min, err := strconv.Atoi(o.MinValue); err == nil && v < min {
		v = min
	}
	if max, err := strconv.Atoi(o.MaxValue); err == nil && v > max {
		v = max
	}
	Settings.Search.TTSize = v
	u.mySearch.ResizeCache()''')
    wr(OPT,s)


POS='/repo/internal/position/position.go'
def longgame():
    s=rd(POS)
    s=rep(s,'''	// Save state of board for undo
	// this helps the compiler to prove that it is in bounds for the several updates we do after
	tmpHistoryCounter := p.historyCounter
	// update existing history entry to not create and allocate a new one
	p.history[tmpHistoryCounter].zobristKey = p.zobristKey
	p.history[tmpHistoryCounter].move = m''','''	// Save state of board for undo
	if p.historyCounter >= maxHistory {
		p.makeHistoryRoom()
	}
	// this helps the compiler to prove that it is in bounds for the several updates we do after
	tmpHistoryCounter := p.historyCounter
	// update existing history entry to not create and allocate a new one
	p.history[tmpHistoryCounter].zobristKey = p.zobristKey
	p.history[tmpHistoryCounter].move = m''')
    s=rep(s,'''func (p *Position) DoNullMove() {
	// Save state of board for undo
	// this helps the compiler to prove that it is in bounds for the several updates we do after
	tmpHistoryCounter := p.historyCounter''','''func (p *Position) DoNullMove() {
	// Save state of board for undo
	if p.historyCounter >= maxHistory {
		p.makeHistoryRoom()
	}
	// this helps the compiler to prove that it is in bounds for the several updates we do after
	tmpHistoryCounter := p.historyCounter''')
    s=rep(s,'''// IsAttacked checks if the given square is attacked by a piece
// of the given color.''','''// makeHistoryRoom is called when a game gets longer than the history can
// hold. It forgets the older half of the history. Repetition detection never
// needs to look back further than the half move clock allows and moves are
// only taken back within a search - both stay well within the newer half.
func (p *Position) makeHistoryRoom() {
	const keep = maxHistory / 2
	copy(p.history[:keep], p.history[maxHistory-keep:])
	p.historyCounter = keep
}

// IsAttacked checks if the given square is attacked by a piece
// of the given color.''')
    wr(POS,s)


def d10():
    s=rd(SE)
    s=rep(s,'''	// set position and searchLimits into the current search state
	s.currentPosition = &p
	s.searchLimits = &sl
''','''	// position and searchLimits are set into the current search state by
	// run() once it is clear that no other search is running
''')
    s=rep(s,'''		s.log.Error("Search already running")
''','''		s.log.Error("Search already running")
		// the caller waits in StartSearch() for the init phase lock
		s.initSemaphore.Release(1)
''')
    s=rep(s,'''	// start search timer
	s.startTime = time.Now()''','''	// set position and searchLimits into the current search state
	s.currentPosition = position
	s.searchLimits = sl

	// start search timer
	s.startTime = time.Now()''')
    wr(SE,s)

if __name__=='__main__':
    for f in sys.argv[1:]: globals()[f]()
