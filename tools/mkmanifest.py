#!/usr/bin/env python3
"""Regenerates /verif/MANIFEST.json from the table below (keeps it schema-valid)."""
import json, subprocess, sys, os
V = "/verif"
props = [json.loads(l) for l in open(f"{V}/properties.jsonl")]
ids = [p["id"] for p in props]

# id -> (category, technique, level text, level note, design ref)
CHECKS = {}
def chk(i, cat, technique, text, note):
    CHECKS[i] = dict(cat=cat, technique=technique, text=text, note=note)

exec(open(f"{V}/tools/checks_table.py").read())

hook_commits = []
try:
    out = subprocess.run(["git", "-C", "/repo", "log", "--format=%H %s"], capture_output=True, text=True).stdout
    for l in out.splitlines():
        h, s = l.split(" ", 1)
        if s.startswith("verif-hook:"):
            hook_commits.append(h)
except Exception:
    pass

base = json.load(open("/root/.vp/BASELINE.json"))
m = {
    "version": 1,
    "setup_cmd": "./setup.sh",
    "hooks": {
        "guard": "verif",
        "enable": "go build -tags verif (harness module /verif/harness with replace github.com/frankkopp/FrankyGo => /repo)",
        "baseline_off_cmd": "cd /repo && go test -json -vet=off -count=1 -timeout 25m ./...",
        "source_commits": hook_commits,
        "add_only": True,
    },
    "engines": [{"name": "vh", "path": "harness/cmd/vh", "serves_properties": sorted(CHECKS), "kind_free_text": "Go harness: orchestrator + child workers running the real FrankyGo packages under monitors (refchess differential oracle, reference models, hooks, Go race detector, porcupine)"}],
    "checks": [],
    "not_applicable": [],
    "notes": "All checks: bin/vcheck <ID> <tier>; exit 0 held on everything explored, 1 + VIOLATION line, 2 BROKEN (harness/build problem, never a verdict). Known findings: known_findings.json.",
}
for i in ids:
    if i in CHECKS:
        c = CHECKS[i]
        m["checks"].append({
            "property_id": i,
            "quick_cmd": f"bin/vcheck {i} quick",
            "thorough_cmd": f"bin/vcheck {i} thorough",
            "evidence_file": f"evidence/{i}.json",
            "replay_cmd_template": "bin/vcheck replay {path}",
            "engine": "vh",
            "level_claimed": {"category": c["cat"], "text": c["text"], "design_ref": f"DESIGN.md section 2, {i}"},
            "level_note": c["note"],
            "technique": c["technique"],
        })
    else:
        m["not_applicable"].append({"property_id": i, "reason": "check not built yet in this session (runtime-monitoring design exists in DESIGN.md); not claimed until its monitor runs clean"})
json.dump(m, open(f"{V}/MANIFEST.json", "w"), indent=1)
print("checks:", len(m["checks"]), "not_applicable:", len(m["not_applicable"]))
