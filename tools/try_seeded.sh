#!/bin/sh
# usage: tools/try_seeded.sh <patch.diff> <tier> <ID> [<ID> ...]
# Applies a seeded change to /repo, runs the given checks, reverts the change.
# /repo must be clean before. Prints one line per check.
patch=$1; tier=$2; shift 2
cd /repo || exit 2
if [ -n "$(git status --porcelain)" ]; then echo "repo not clean"; exit 2; fi
git apply "$patch" || { echo "patch does not apply"; exit 2; }
cd /verif
for id in "$@"; do
  s=$(date +%s)
  bin/vcheck $id $tier > /verif/run/seeded_$id.log 2>&1
  rc=$?
  e=$(date +%s)
  echo "$id rc=$rc $((e-s))s viol=$(grep -c '^VIOLATION' /verif/run/seeded_$id.log) keys=$(grep -o 'key=[^ ]*' /verif/run/seeded_$id.log | sort -u | head -4 | tr '\n' ' ')"
done
git -C /repo checkout -- . 
git -C /repo status --porcelain | head -3
