#!/usr/bin/env python3
"""store_seeded.py <worktree-id> <seeded-name> <caught_by: 'C09:GivesCheck:enpassant,...'> [note]"""
import json, sys, os, shutil, glob, subprocess
wt, name, caught = sys.argv[1], sys.argv[2], sys.argv[3]
note = sys.argv[4] if len(sys.argv) > 4 else ""
src = os.environ.get("WT", "/tmp/wt") + f"/{wt}"
dst = f"/verif/seeded/{name}"
os.makedirs(dst, exist_ok=True)
shutil.copy(f"{src}/patch.diff", f"{dst}/patch.diff")
demos = [p for p in glob.glob(f"{src}/internal/**/seeded*_test.go", recursive=True)]
for d in demos:
    rel = os.path.relpath(d, src)
    shutil.copy(d, f"{dst}/" + rel.replace("/", "__"))
meta = json.load(open(f"{src}/meta.json"))
conf = open(f"{src}/confirm.log").read().splitlines() if os.path.exists(f"{src}/confirm.log") else []
meta["property"] = meta.get("property", wt)
meta["demo_files"] = [os.path.relpath(d, src) + " (stored here as " + os.path.relpath(d, src).replace("/", "__") + ")" for d in demos]
meta["origin"] = "independent sub-agent, given only the property text and a scratch worktree of /repo (HEAD " + subprocess.run(["git","-C",src,"rev-parse","--short","HEAD"],capture_output=True,text=True).stdout.strip() + ")"
meta["confirmed_by_me"] = [l for l in conf if l.startswith(("BUILD","DEMO","packages=","  FAIL","NOTE"))]
meta["caught_by"] = [c for c in caught.split(",") if c]
if note: meta["note"] = note
json.dump(meta, open(f"{dst}/meta.json","w"), indent=1)
print("stored", dst, "demos:", len(demos))
