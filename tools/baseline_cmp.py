#!/usr/bin/env python3
"""Compare a `go test -json` output with the pinned baseline: which stable tests fail / are missing."""
import json, sys
base = json.load(open('/root/.vp/BASELINE.json'))
stable = set(base['stable_pass'])
res = {}
pk = set()
for l in open(sys.argv[1]):
    try: e = json.loads(l)
    except Exception: continue
    if e.get('Test') and e.get('Action') in ('pass', 'fail', 'skip'):
        res[e['Package'] + '::' + e['Test']] = e['Action']
    if e.get('Package'): pk.add(e['Package'])
scope = [k for k in stable if k.split('::')[0] in pk]
bad = sorted(k for k in scope if res.get(k) == 'fail')
missing = sorted(k for k in scope if k not in res)
print(f"packages={len(pk)} results={len(res)} stable-in-scope={len(scope)} stable-failing={len(bad)} stable-missing={len(missing)}")
for k in bad: print("  FAIL", k)
for k in missing[:20]: print("  MISSING", k)
other = sorted(k for k, v in res.items() if v == 'fail' and k not in stable)
print("non-stable failing:", other)
