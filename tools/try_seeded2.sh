#!/bin/sh
# usage: tools/try_seeded2.sh <patch.diff> <tier> <ID> [<ID> ...]
# Like try_seeded.sh but on a scratch pair (/tmp/repo_mut = worktree of /repo, /tmp/verif_mut =
# copy of /verif) so that /repo itself stays untouched (e.g. while its test suite runs).
# Remove the pair afterwards: git -C /repo worktree remove --force /tmp/repo_mut; rm -rf /tmp/verif_mut
patch=$1; tier=$2; shift 2
rsync -a --exclude run --exclude build --exclude .git --exclude evidence /verif/ /tmp/verif_mut/
[ -d /tmp/repo_mut ] || git -C /repo worktree add -q --detach /tmp/repo_mut HEAD || exit 2
cd /tmp/repo_mut || exit 2
git checkout -q -- . ; git checkout -q --detach $(git -C /repo rev-parse HEAD)
git apply "$patch" || { echo "patch does not apply"; exit 2; }
mkdir -p /tmp/verif_mut/run
for id in "$@"; do
  s=$(date +%s)
  VERIF_REPO=/tmp/repo_mut /tmp/verif_mut/bin/vcheck $id $tier > /tmp/verif_mut/run/seeded_$id.log 2>&1
  rc=$?
  e=$(date +%s)
  echo "$id rc=$rc $((e-s))s viol=$(grep -c '^VIOLATION' /tmp/verif_mut/run/seeded_$id.log) keys=$(grep -o 'key=[^ ]*' /tmp/verif_mut/run/seeded_$id.log | sort -u | head -4 | tr '\n' ' ')"
done
git checkout -q -- .
