#!/bin/sh
# For every "fix:" commit of /repo: revert it in the working tree, run the check(s) that
# are supposed to see the defect return, restore. Output: one line per (commit, check).
cd /repo || exit 2
[ -n "$(git status --porcelain)" ] && { echo "repo not clean"; exit 2; }
run() { # <grep pattern of commit subject> <ids...>
  pat=$1; shift
  c=$(git log --format='%h %s' | grep "$pat" | head -1 | cut -d' ' -f1)
  [ -z "$c" ] && { echo "no commit for $pat"; return; }
  if ! git show $c | git apply -R 2>/dev/null; then echo "$c ($pat): cannot revert cleanly - skipped"; git checkout -- .; return; fi
  for id in "$@"; do
    (cd /verif && bin/vcheck $id quick > /verif/run/revert_$id.log 2>&1); rc=$?
    echo "$c [$pat] $id rc=$rc viol=$(grep -c '^VIOLATION' /verif/run/revert_$id.log) $(grep -o 'key=[^ ]*' /verif/run/revert_$id.log | sort -u | head -3 | tr '\n' ' ')"
  done
  git checkout -- .
}
run 'en-passant file in the zobrist' C04 C10
run 'IsAttacked no longer' C09
run 'AttacksTo marks' C09
run 'not insufficient material' C10 C15
run 'tempo bonus' C15
run 'mirror the piece-square' C15
run 'HasLegalMove considers' C08
run 'phased move generation delivers' C08
run 'table of size 0' C11
run 'FEN setup validates' C16
run 'keeps the value of entries stored' C11
run 'only pruned' C07
run 'stale line' C05
run 'still returns a legal move' C05
run 'searchmoves' C13
run 'never exceeds the time left' C13
run 'rejected without blocking' C14
run 'only be stopped by its own timer' C14 C12 C13
run 'serialize writes' C12 C14
run 'malformed UCI commands' C16
run 'longer than the history capacity' C16
run 'GetLog no longer' C14
run 'lazy initialisation of the package loggers' C19
run 'leaves the book lock locked' C20
