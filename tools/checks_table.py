chk("C01", "exploration", "runtime differential monitor: engine legal-move multiset vs independent rules oracle (refchess) at every node of generated games/trees; perft totals",
    "Held-on-what-was-explored: every generated node's legal move list is compared as a multiset with an independent rules implementation; node-level comparison cannot be fooled by compensating errors. Not a proof: positions not generated and perft depths > 4 are not covered.",
    "Trusted: refchess (gated by published perft counts at setup); corpus generators produce legal positions with consistent rights/ep.")
