chk("C01", "exploration", "runtime differential monitor: engine legal-move multiset vs independent rules oracle (refchess) at every node of generated games/trees; perft totals",
    "Held-on-what-was-explored: every generated node's legal move list is compared as a multiset with an independent rules implementation; node-level comparison cannot be fooled by compensating errors. Not a proof: positions not generated and perft depths > 4 are not covered.",
    "Trusted: refchess (gated by published perft counts at setup); corpus generators produce legal positions with consistent rights/ep.")
chk("C02", "exploration", "runtime differential monitor: DoMove result (FEN + accessors) vs refchess successor for every legal move of generated positions and ply-by-ply over games up to 500 plies",
    "Held-on-what-was-explored over (position, move) pairs and long games; compares full successor state, not totals.",
    "Trusted: refchess successor function; FEN convention that the ep target is set after every double push.")
chk("C03", "exploration", "runtime invariant monitor: snapshot of all public observables before do / after undo at every level of randomised search-like excursions incl. null moves",
    "Held-on-what-was-explored over millions of undo operations compared field by field at every nesting level; the asymmetric game-phase clamp (D1) is reported as a known finding keyed to its witness class.",
    "Trusted: the public getters as observation interface. Known finding D1 listed in known_findings.json.")
chk("C04", "exploration", "runtime monitor: incremental state vs fresh position from own FEN vs sums over the board; two-way dictionary position identity <-> zobrist key over play, FEN, transpositions and one-component neighbours",
    "Held-on-what-was-explored; key-function clause decided by a run-wide dictionary so that any two positions that should (not) share a key are compared.",
    "Trusted: refchess identity (placement, side, rights, ep); 64-bit accidental collisions are assumed not to occur in 10^5..10^7 positions.")
chk("C09", "exploration", "runtime differential monitor: HasCheck / GivesCheck / IsAttacked / AttacksTo / IsLegalMove / WasLegalMove vs refchess for all squares, colours and pseudo-legal moves, each call under recover",
    "Held-on-what-was-explored; exhaustive over 64 squares x 2 colours x all pseudo-legal moves of each generated position incl. an ep sweep over all files.",
    "Trusted: refchess attack sets; E1/E2 conventions required when the ep capture is legal, tolerated when only pseudo-legal; GivesCheck judged on legal moves only.")
chk("C10", "exploration", "runtime monitor over constructed game histories: CheckRepetitions(1..4) and HalfMoveClock vs refchess game record at every ply; exhaustive material-signature enumeration with three-valued oracle",
    "Held-on-what-was-explored; cycles are constructed (not hoped for) so that 1-,2-,3-fold situations are observed by the thousand; material classes enumerated exhaustively up to 3 extra pieces per side.",
    "Trusted: refchess game record; material classes exactly as worded in the property (everything else is 'free').")
chk("C15", "exploration", "runtime metamorphic monitor: Evaluate vs repeated / fresh-instance / fresh-position / post-excursion / colour-mirror evaluations under 5 evaluation configurations",
    "Held-on-what-was-explored; each Evaluate result has 5 sibling results that must be identical.",
    "Trusted: refchess mirror. History dependence through D1 is a known finding keyed to games whose phase sum exceeded 24.")
chk("C17", "exploration", "runtime round-trip monitor: UCI/SAN strings rendered by the engine and by refchess parsed back through GetMoveFromUci/GetMoveFromSan/ValidateMove, with negative cases; exhaustive enumeration of the packed move encoding",
    "Notation: held-on-what-was-explored over all legal moves of generated positions x notation variants. Encoding: the 65,536 field combinations are enumerated completely, the full value range on a 512-move subset.",
    "Trusted: refchess SAN renderer (Appendix A variants). Lenient aliases accepted by the parser are not judged.")
chk("C18", "exploration", "exhaustive runtime comparison of every precomputed table lookup with ray walking on (file,rank) coordinates: all line subsets for rook/bishop per square, all square pairs, all masks, shifts",
    "Finite domain enumerated in both tiers for sliders (every subset of the piece's lines), pairs and masks; queen and shifts additionally sampled on random occupancies.",
    "Trusted: the ray-walk oracle and the geometric definitions documented in bitboard.go.")
chk("C05", "exploration", "runtime monitor at the UciDriver boundary: every best move / ponder move / iteration PV / final PV of generated searches validated against refchess; position snapshot before/after; node-limit sweep enumerates stop moments; warm-table chains",
    "Held-on-what-was-explored over thousands of searches in all limit modes, random switch subsets, enumerated stop moments and chained searches on one Search instance.",
    "Trusted: refchess legality. Non-termination is judged by watchdog + goroutine dump only.")
chk("C06", "exploration", "runtime differential monitor: engine search value/best move vs a pruning-free negamax reference written in the harness on the engine's own Position/Evaluate; metamorphic comparison across sound-switch masks with quiescence on",
    "Held-on-what-was-explored: exact equality with an independent minimax on every (root, depth, mask) searched; clause 2 by cross-configuration equality (a pruning-free quiescence reference does not terminate).",
    "Trusted: Position/movegen/Evaluate shared with the engine (judged by C01-C04, C15). D1 consequences are known findings keyed to trees whose phase sum exceeds 24.")
chk("C07", "exploration", "runtime invariant hook inside search/qsearch (build tag verif): every mate/stalemate classification observed and judged by refchess (legal-move count, in-check)",
    "Held-on-what-was-observed: thousands to millions of classifications under default and random pruning configurations; terminal roots through the public result.",
    "Trusted: refchess; the hook only reads the position.")
chk("C08", "exploration", "runtime differential monitor: phased generator output vs batch generator as multisets under generated generator states; partition, evasion and HasLegalMove clauses against refchess",
    "Held-on-what-was-explored over positions x modes x generator states (PV from every stage, killers, history tables, reuse with/without reset, interleaving, abandoned iterations).",
    "Trusted: refchess pseudo-legal/legal definitions (DESIGN Appendix A); PV moves drawn from the position's pseudo-legal set.")
chk("C11", "exploration", "runtime reference-model monitor: sequential model of the table driven in lock-step by seeded op histories with colliding keys; capacity established behaviourally; race detector on half of the shards",
    "Held-on-what-was-explored over histories of Put/Probe/GetEntry/AgeEntries/Clear/Resize; replacement judged in the only-if direction. Key 0 (empty-slot marker) is a known finding.",
    "Trusted: the reference model incl. the documented age semantics.")
chk("C12", "exploration", "runtime monitor over recorded UCI sessions (real Loop through pipes, one monotonic clock): offline rules for exactly-one bestmove, ordering vs stop/ponderhit, readyok, position replay (refchess), ucinewgame equality, Print Config diff",
    "Held-on-what-was-explored over generated protocol-valid sessions incl. zero-delay re-go, stop right after go, isready during search; temporal clause by isolate-and-reproduce.",
    "Trusted: refchess replay; hand-written option->field table; fresh engine = new handler in the same process.")
chk("C13", "exploration", "runtime monitor: deterministic sweep of the time-budget computation through a verif-tagged wrapper + limited searches observed through driver/trace (depth, nodes, searchmoves, movetime, live clock budget)",
    "Budget clause: the parameter grid is swept completely in both tiers (deterministic). Search clauses: held-on-what-was-explored; temporal clause by isolate-and-reproduce.",
    "Trusted: node overshoot bound 256; allowance 250 ms decided only if reproducible in isolation.")
chk("C14", "exploration", "Go race detector over lifecycle histories and UCI sessions; per-call watchdog with two-dump deadlock proof and causal interventions for calls blocked by a live search (end the running search / repeat the stop from another goroutine and see whether the blocked call returns only then); seeded delays and rendezvous at hook points (timer held before its fire, stop meeting the firing timer), single-processor histories; offline trace checker (exactly-once, ownership of timers/stops); porcupine linearizability against the sequential lifecycle model",
    "Held-on-what-was-observed: distinct lifecycle interleavings are counted from the event order; schedules are sampled (seeded delays at hook points), not enumerated.",
    "Trusted: the sequential model of DESIGN Appendix B; race reports de-duplicated by innermost FrankyGo function pair.")
chk("C16", "exploration", "runtime robustness monitor: grammar-aware FEN mutation + random bytes judged by round-trip/fixpoint/usability oracles; hostile UCI sessions against the real Loop with isready + position tracking after every line; crash attribution by per-case breadcrumbs and process restart",
    "Held-on-what-was-explored over tens of thousands of strings and hostile command lines; a panic anywhere kills the child and is attributed to the logged input.",
    "Trusted: refchess for FEN/position tracking; 'well-formed' = usable by the engine's own predicates and move generator; requested hash sizes are kept small.")
chk("C19", "exploration", "runtime differential monitor: books built by the real parallel Initialize from generated collections in three formats vs single-threaded reference replay; rebuilds under varying GOMAXPROCS; race detector on half of the shards",
    "Held-on-what-was-explored; scheduler interleavings are sampled (distinct insertion orders observed are counted).",
    "Trusted: refchess + engine zobrist key as position identity (C04).")
chk("C20", "fault_enumeration", "fault enumeration: every prefix length of written cache files (crash points of the non-atomic save) + corruptions classified by an independent gob decode; Initialize under a watchdog with in-process deadlock classification; process restart after a proven hang",
    "Every crash point of the save is enumerated for cache files up to 16 KB (first/last 4 KB + stride for larger ones); corruptions sampled.",
    "Trusted: source-built book as reference (C19); encoding/gob as classifier of 'undecodable'.")
