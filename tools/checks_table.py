chk("C01", "exploration", "runtime differential monitor: engine legal-move multiset vs independent rules oracle (refchess) at every node of generated games/trees; perft totals",
    "Held-on-what-was-explored: every generated node's legal move list is compared as a multiset with an independent rules implementation; node-level comparison cannot be fooled by compensating errors. Not a proof: positions not generated and perft depths > 4 are not covered.",
    "Trusted: refchess (gated by published perft counts at setup); corpus generators produce legal positions with consistent rights/ep.")
chk("C02", "exploration", "runtime differential monitor: DoMove result (FEN + accessors) vs refchess successor for every legal move of generated positions and ply-by-ply over games up to 500 plies",
    "Held-on-what-was-explored over (position, move) pairs and long games; compares full successor state, not totals.",
    "Trusted: refchess successor function; FEN convention that the ep target is set after every double push.")
chk("C03", "exploration", "runtime invariant monitor: snapshot of all public observables before do / after undo at every level of randomised search-like excursions incl. null moves",
    "Held-on-what-was-explored over millions of undo operations compared field by field at every nesting level; the asymmetric game-phase clamp (D1) is reported as a known finding keyed to its witness class.",
    "Trusted: the public getters as observation interface. Known finding D1 listed in known_findings.json.")
chk("C04", "exploration", "runtime monitor: incremental state vs fresh position from own FEN vs sums over the board; two-way dictionary position identity <-> zobrist key over play, FEN, transpositions and one-component neighbours",
    "Held-on-what-was-explored; key-function clause decided by a run-wide dictionary so that any two positions that should (not) share a key are compared.",
    "Trusted: refchess identity (placement, side, rights, ep); 64-bit accidental collisions are assumed not to occur in 10^5..10^7 positions.")
chk("C09", "exploration", "runtime differential monitor: HasCheck / GivesCheck / IsAttacked / AttacksTo / IsLegalMove / WasLegalMove vs refchess for all squares, colours and pseudo-legal moves, each call under recover",
    "Held-on-what-was-explored; exhaustive over 64 squares x 2 colours x all pseudo-legal moves of each generated position incl. an ep sweep over all files.",
    "Trusted: refchess attack sets; E1/E2 conventions required when the ep capture is legal, tolerated when only pseudo-legal; GivesCheck judged on legal moves only.")
chk("C10", "exploration", "runtime monitor over constructed game histories: CheckRepetitions(1..4) and HalfMoveClock vs refchess game record at every ply; exhaustive material-signature enumeration with three-valued oracle",
    "Held-on-what-was-explored; cycles are constructed (not hoped for) so that 1-,2-,3-fold situations are observed by the thousand; material classes enumerated exhaustively up to 3 extra pieces per side.",
    "Trusted: refchess game record; material classes exactly as worded in the property (everything else is 'free').")
chk("C15", "exploration", "runtime metamorphic monitor: Evaluate vs repeated / fresh-instance / fresh-position / post-excursion / colour-mirror evaluations under 5 evaluation configurations",
    "Held-on-what-was-explored; each Evaluate result has 5 sibling results that must be identical.",
    "Trusted: refchess mirror. History dependence through D1 is a known finding keyed to games whose phase sum exceeded 24.")
chk("C17", "exploration", "runtime round-trip monitor: UCI/SAN strings rendered by the engine and by refchess parsed back through GetMoveFromUci/GetMoveFromSan/ValidateMove, with negative cases; exhaustive enumeration of the packed move encoding",
    "Notation: held-on-what-was-explored over all legal moves of generated positions x notation variants. Encoding: the 65,536 field combinations are enumerated completely, the full value range on a 512-move subset.",
    "Trusted: refchess SAN renderer (Appendix A variants). Lenient aliases accepted by the parser are not judged.")
chk("C18", "exploration", "exhaustive runtime comparison of every precomputed table lookup with ray walking on (file,rank) coordinates: all line subsets for rook/bishop per square, all square pairs, all masks, shifts",
    "Finite domain enumerated in both tiers for sliders (every subset of the piece's lines), pairs and masks; queen and shifts additionally sampled on random occupancies.",
    "Trusted: the ray-walk oracle and the geometric definitions documented in bitboard.go.")
