package main

import (
	"fmt"
	"math/rand"

	rc "github.com/frankkopp/FrankyGo/verifh/refchess"
)

func main() {
	r := rand.New(rand.NewSource(7))
	found := map[string]bool{}
	for try := 0; try < 3000000 && len(found) < 8; try++ {
		b := &rc.Board{Ep: -1, Full: 20, White: true}
		wk := r.Intn(16) // white king on rank 1-2
		bk := 40 + r.Intn(24)
		b.Sq[wk], b.Sq[bk] = 'K', 'k'
		pf := r.Intn(8)
		if b.Sq[rc.Sq(pf, 1)] != 0 {
			continue
		}
		b.Sq[rc.Sq(pf, 1)] = 'P'
		n := 2 + r.Intn(4)
		for i := 0; i < n; i++ {
			sq := r.Intn(64)
			if b.Sq[sq] == 0 {
				b.Sq[sq] = "qrbnqr"[r.Intn(6)]
			}
		}
		if b.Validate() != nil {
			continue
		}
		l := b.Legal()
		if len(l) == 1 && b.Sq[l[0].From] == 'P' && l[0].To-l[0].From == 16 {
			f := b.FEN()
			if !found[f] {
				found[f] = true
				fmt.Println(f, l[0].UCI())
			}
		}
	}
}
