package main

import (
	"fmt"
	"os"

	"github.com/frankkopp/FrankyGo/internal/config"
	"github.com/frankkopp/FrankyGo/internal/movegen"
	"github.com/frankkopp/FrankyGo/internal/position"
)

func main() {
	config.LogLevel = 0
	for _, fen := range os.Args[1:] {
		p, _ := position.NewPositionFen(fen)
		mg := movegen.NewMoveGen()
		fmt.Println(fen, "legal:", mg.GenerateLegalMoves(p, movegen.GenAll).Len(), "HasLegalMove:", mg.HasLegalMove(p))
	}
}
