package main

import (
	"fmt"
	"math/rand"
	"regexp"
	"strings"

	rc "github.com/frankkopp/FrankyGo/verifh/refchess"
)

var re = regexp.MustCompile(`^[NBRQ][a-h][1-8]x[a-h][1-8]`)

func main() {
	preludes := []string{
		"a2a4 b7b5 a4b5 d7d5 b5b6 h7h5 b6a7 h8h6 a7b8n",
		"h2h4 g7g5 h4g5 e7e5 g5g6 a7a5 g6h7 a8a6 h7g8r",
		"a2a3 h7h5 b2b3 h5h4 c2c3 h4h3 d2d3 h3g2 e2e3 g2h1n",
	}
	r := rand.New(rand.NewSource(11))
	found := 0
	for try := 0; try < 400000 && found < 4; try++ {
		b := rc.MustFEN(rc.StartFEN)
		var ms []string
		pre := preludes[try%len(preludes)]
		ok := true
		for _, u := range strings.Fields(pre) {
			f := false
			for _, l := range b.Legal() {
				if l.UCI() == u {
					b = b.Apply(l)
					ms = append(ms, u)
					f = true
					break
				}
			}
			if !f {
				ok = false
				break
			}
		}
		if !ok {
			continue
		}
		for i := 0; i < 26; i++ {
			legal := b.Legal()
			if len(legal) == 0 {
				break
			}
			var hit *rc.Move
			for k := range legal {
				if b.Sq[legal[k].To] != 0 && re.MatchString(b.SAN(legal[k], rc.SanOpts{})) {
					hit = &legal[k]
					break
				}
			}
			if hit != nil {
				ms = append(ms, hit.UCI())
				fmt.Println(strings.Join(ms, " "), " // ", b.SAN(*hit, rc.SanOpts{}))
				found++
				break
			}
			// prefer knight / rook moves
			var pick rc.Move
			pick = legal[r.Intn(len(legal))]
			for t := 0; t < 8; t++ {
				c := legal[r.Intn(len(legal))]
				if p := b.Sq[c.From]; p == 'N' || p == 'n' || p == 'R' || p == 'r' {
					pick = c
					break
				}
			}
			ms = append(ms, pick.UCI())
			b = b.Apply(pick)
		}
	}
}
