package main

import (
	"fmt"
	"os"
	"time"

	"github.com/frankkopp/FrankyGo/internal/config"
	"github.com/frankkopp/FrankyGo/internal/position"
	"github.com/frankkopp/FrankyGo/internal/search"
)

func main() {
	config.LogLevel = 0
	config.SearchLogLevel = 0
	fen := os.Args[1]
	for mask := 0; mask < 8; mask++ {
		config.Settings.Search.UseBook = false
		config.Settings.Search.TTSize = 1
		config.Settings.Search.UseQSStandpat = mask&1 == 0
		config.Settings.Search.UseSEE = mask&2 == 0
		config.Settings.Search.UseQFP = mask&4 == 0
		s := search.NewSearch()
		p, _ := position.NewPositionFen(fen)
		t0 := time.Now()
		s.StartSearch(*p, search.Limits{Nodes: 187, Depth: 9})
		done := make(chan bool)
		go func() { s.WaitWhileSearching(); done <- true }()
		select {
		case <-done:
			fmt.Println("mask", mask, "ended after", time.Since(t0), "nodes", s.NodesVisited())
		case <-time.After(20 * time.Second):
			fmt.Println("mask", mask, "STILL RUNNING after 20s nodes", s.NodesVisited())
			s.StopSearch()
			<-done
			fmt.Println("   stopped after", time.Since(t0), "nodes", s.NodesVisited())
		}
	}
}
