package main

import (
	"fmt"
	"os"
	"strconv"

	"github.com/frankkopp/FrankyGo/internal/config"
	"github.com/frankkopp/FrankyGo/internal/position"
	"github.com/frankkopp/FrankyGo/internal/search"
)

func main() {
	config.LogLevel = 0
	config.SearchLogLevel = 0
	config.Settings.Search.UseBook = false
	config.Settings.Search.TTSize = 4
	s := search.NewSearch()
	for i := 1; i+1 < len(os.Args); i += 2 {
		fen := os.Args[i]
		d, _ := strconv.Atoi(os.Args[i+1])
		p, err := position.NewPositionFen(fen)
		if err != nil {
			fmt.Println(err)
			return
		}
		if i == 1 {
			config.Settings.Search.UseRazoring = false
		} else {
			config.Settings.Search.UseRazoring = true
		}
		s.StartSearch(*p, search.Limits{Depth: d, Nodes: 150000})
		s.WaitWhileSearching()
		r := s.LastSearchResult()
		fmt.Println(r.String())
	}
}
