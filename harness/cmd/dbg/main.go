package main

import (
	"fmt"
	"os"

	"github.com/frankkopp/FrankyGo/internal/config"
	"github.com/frankkopp/FrankyGo/internal/evaluator"
	"github.com/frankkopp/FrankyGo/internal/position"
	"github.com/frankkopp/FrankyGo/internal/types"
	rc "github.com/frankkopp/FrankyGo/verifh/refchess"
)

func main() {
	config.LogLevel = 0
	fen := os.Args[1]
	b := rc.MustFEN(fen)
	for _, f := range []string{b.FEN(), b.Mirror().FEN()} {
		p, _ := position.NewPositionFen(f)
		e := evaluator.NewEvaluator()
		fmt.Println(f)
		fmt.Println(" gp", p.GamePhase(), "mat", p.Material(types.White), p.Material(types.Black), "mid", p.PsqMidValue(types.White), p.PsqMidValue(types.Black), "end", p.PsqEndValue(types.White), p.PsqEndValue(types.Black), "eval", e.Evaluate(p), "insuff", p.HasInsufficientMaterial())
	}
}
