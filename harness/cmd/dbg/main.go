package main

import (
	"fmt"
	"os"

	"github.com/frankkopp/FrankyGo/internal/config"
	"github.com/frankkopp/FrankyGo/internal/movegen"
	rc "github.com/frankkopp/FrankyGo/verifh/refchess"
)

func main() {
	config.LogLevel = 0
	fen := os.Args[1]
	pf := movegen.NewPerft()
	pf.StartPerft(fen, 4, true)
	fmt.Println("od", pf.Nodes, "ref", rc.MustFEN(fen).Perft(4))
}
