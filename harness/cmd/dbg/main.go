package main

import (
	"fmt"

	"github.com/frankkopp/FrankyGo/internal/config"
	"github.com/frankkopp/FrankyGo/internal/movegen"
	"github.com/frankkopp/FrankyGo/internal/position"
)

func main() {
	config.LogLevel = 0
	p := position.NewPosition()
	mg := movegen.NewMoveGen()
	cyc := []string{"g1f3", "g8f6", "f3g1", "f6g8"}
	for n := 0; n < 511; n++ {
		p.DoMove(mg.GetMoveFromUci(p, cyc[n%4]))
	}
	fmt.Println("before", p.LastMove().StringUci(), p.CheckRepetitions(2), p.StringFen())
	p.DoNullMove()
	p.UndoNullMove()
	fmt.Println("after ", p.LastMove().StringUci(), p.CheckRepetitions(2), p.StringFen())
}
