package main

import (
	"fmt"
	"time"

	"github.com/frankkopp/FrankyGo/internal/config"
	"github.com/frankkopp/FrankyGo/internal/position"
	"github.com/frankkopp/FrankyGo/internal/search"
)

func main() {
	config.LogLevel = 0
	config.SearchLogLevel = 0
	config.Settings.Search.UseBook = false
	config.Settings.Search.TTSize = 4
	fen := "4r3/p1k2pp1/1p4q1/2p5/3r1p2/4N3/P4QBP/6RK w - - 0 1"
	s := search.NewSearch()
	for _, us := range []int{0, 200, 500, 1000, 2000, 3000, 5000, 8000} {
		s.NewGame()
		p, _ := position.NewPositionFen(fen)
		s.StartSearch(*p, search.Limits{Nodes: 9654, Depth: 9})
		time.Sleep(time.Duration(us) * time.Microsecond)
		p2, _ := position.NewPositionFen(fen)
		s.StartSearch(*p2, search.Limits{Depth: 1})
		s.WaitWhileSearching()
		fmt.Println("sleep", us, "nodes", s.NodesVisited(), "depth", s.LastSearchResult().SearchDepth)
	}
}
