package main

import (
	"fmt"
	"os"

	"github.com/frankkopp/FrankyGo/internal/config"
	"github.com/frankkopp/FrankyGo/internal/position"
	"github.com/frankkopp/FrankyGo/internal/search"
)

func main() {
	config.LogLevel = 0
	config.SearchLogLevel = 0
	config.Settings.Search.UseBook = false
	config.Settings.Search.TTSize = 2
	config.Settings.Search.UseLmp = false
	for _, fen := range os.Args[1:] {
		s := search.NewSearch()
		p, _ := position.NewPositionFen(fen)
		s.StartSearch(*p, search.Limits{Depth: 8, Nodes: 1500000})
		s.WaitWhileSearching()
		fmt.Println(fen, s.LastSearchResult().BestMove.StringUci(), s.NodesVisited(), s.LastSearchResult().SearchDepth)
	}
}
