// vh is the verification harness of /verif: one binary acting as orchestrator
// ("orch"), as worker ("child") and as replayer ("replay").
package main

import (
	"flag"
	"fmt"
	"os"
	"strconv"
	"time"
)

// CheckSpec describes one property check.
type CheckSpec struct {
	ID          string
	Fn          func(c *Ctx)
	Shards      int
	Race        bool // run children from the -race binary and collect race reports
	RaceOnly    bool // all children are race children
	TimeoutQ    time.Duration
	TimeoutT    time.Duration
	Level       string
	Rule        string
	Assumptions []string
	Required    []string // counters that must be > 0, otherwise the run is BROKEN
	MinEvals    int64
	Resume      bool // restart a crashed/hung shard after the offending case
	// Post may inspect the merged result and add violations / inconclusives.
	Post func(o *Orch)
}

var registry = map[string]*CheckSpec{}

func register(s *CheckSpec) {
	if s.Shards == 0 {
		s.Shards = 16
	}
	if s.TimeoutQ == 0 {
		s.TimeoutQ = 10 * time.Minute
	}
	if s.TimeoutT == 0 {
		s.TimeoutT = 60 * time.Minute
	}
	if s.Level == "" {
		s.Level = "exploration"
	}
	registry[s.ID] = s
}

func main() {
	if len(os.Args) < 2 {
		fmt.Fprintln(os.Stderr, "usage: vh orch <ID> <quick|thorough> | child ... | replay <file> | selftest")
		os.Exit(2)
	}
	switch os.Args[1] {
	case "orch":
		if len(os.Args) < 4 {
			fmt.Fprintln(os.Stderr, "usage: vh orch <ID> <quick|thorough>")
			os.Exit(2)
		}
		os.Exit(orchestrate(os.Args[2], os.Args[3], ""))
	case "replay":
		if len(os.Args) < 3 {
			fmt.Fprintln(os.Stderr, "usage: vh replay <file>")
			os.Exit(2)
		}
		os.Exit(replay(os.Args[2]))
	case "child":
		fs := flag.NewFlagSet("child", flag.ExitOnError)
		id := fs.String("id", "", "check id")
		tier := fs.String("tier", "quick", "")
		seed := fs.Uint64("seed", 1, "")
		shard := fs.Int("shard", 0, "")
		nsh := fs.Int("nshards", 1, "")
		out := fs.String("out", "", "")
		rep := fs.String("replay", "", "")
		resume := fs.Int("resume-after", -1, "")
		race := fs.Bool("race", false, "")
		_ = fs.Parse(os.Args[2:])
		spec := registry[*id]
		if spec == nil {
			fmt.Fprintln(os.Stderr, "unknown check", *id)
			os.Exit(3)
		}
		silenceEngine()
		c := &Ctx{Check: *id, Tier: *tier, Seed: *seed, Shard: *shard, NShards: *nsh, Out: *out, Replay: *rep, Race: *race, ResumeAfter: *resume}
		c.Rep = NewRep(*out)
		spec.Fn(c)
		c.Rep.Finish()
		os.Exit(0)
	case "selftest":
		os.Exit(selftest())
	default:
		fmt.Fprintln(os.Stderr, "unknown command", os.Args[1])
		os.Exit(2)
	}
}

func envSeed() uint64 {
	if s := os.Getenv("VERIF_SEED"); s != "" {
		if v, err := strconv.ParseUint(s, 10, 64); err == nil {
			return v
		}
		if v, err := strconv.ParseInt(s, 10, 64); err == nil {
			return uint64(v)
		}
	}
	return 20261001
}
