package main

import (
	"fmt"
	"strings"

	"github.com/frankkopp/FrankyGo/internal/movegen"
	"github.com/frankkopp/FrankyGo/internal/position"
	"github.com/frankkopp/FrankyGo/internal/types"
	rc "github.com/frankkopp/FrankyGo/verifh/refchess"
)

func init() {
	register(&CheckSpec{
		ID: "C17", Fn: c17,
		Rule:        "notation: for every legal move of every corpus position the engine's own UCI string (and the lower-case promotion form) and 8 SAN variants rendered by refchess (with/without x, +/#, =, minimal and full disambiguation) must parse back to exactly that move; negatives (coordinate strings of non-legal moves, SAN of a pinned candidate, SAN with needed disambiguation removed, SAN for a piece that has no such move) must give MoveNone; ValidateMove agrees with membership; encoding: all 65,536 (from,to,type,promotion) combinations x 26 sort values and the full value range -15001..15000 on 512 moves read back field by field; distinct = distinct (position, move, variant) strings + encodings; the one long-lived generator does other work (legal / pseudo-legal generation on another position or in another mode, ValidateMove) between 30% of the notation calls on the same position",
		Assumptions: []string{"SAN variants of Appendix A; lenient aliases the parser also accepts are not judged"},
		Required:    []string{"uci_roundtrips", "san_roundtrips", "san_disambig_file", "san_disambig_rank", "san_disambig_both", "san_promotions", "san_castling", "san_checks", "san_mates", "generator_disturbed_between_calls", "neg_uci", "neg_uci_wrong_suffix", "neg_pinned", "neg_ambiguous", "neg_no_such_move", "encodings"},
		MinEvals:    100000,
	})
}

func c17(c *Ctx) {
	rep := c.Rep
	mg := movegen.NewMoveGen()
	variants := []rc.SanOpts{
		{}, {NoCaptureX: true}, {NoCheck: true}, {NoPromoEq: true}, {NoCaptureX: true, NoCheck: true, NoPromoEq: true},
		{FullDisambig: true}, {FullDisambig: true, NoCheck: true}, {NoCheck: true, NoPromoEq: true},
	}
	other := position.NewPosition()
	dr := SubRng(c.Seed, "c17/disturb", c.Shard)
	probe := func(p *position.Position, b *rc.Board, ctx map[string]interface{}) {
		fen := b.FEN()
		legal := b.Legal()
		legalKeys := map[uint32]bool{}
		// group by (piece, to) for ambiguity
		type pk struct {
			piece byte
			to    int
		}
		groups := map[pk][]rc.Move{}
		for _, m := range legal {
			legalKeys[rcKey(m)] = true
			groups[pk{b.Sq[m.From], m.To}] = append(groups[pk{b.Sq[m.From], m.To}], m)
		}
		mk := func(extra map[string]interface{}) map[string]interface{} {
			r := map[string]interface{}{"fen": fen}
			for k, v := range ctx {
				r[k] = v
			}
			for k, v := range extra {
				r[k] = v
			}
			return r
		}
		// the generator is a long-lived object that does other work between two notation
		// calls on the same position: refill its buffers on another position / in another mode
		disturb := func() {
			if !dr.Chance(0.3) {
				return
			}
			rep.Inc("generator_disturbed_between_calls")
			switch dr.Intn(4) {
			case 0:
				mg.GenerateLegalMoves(other, movegen.GenAll)
			case 1:
				mg.GenerateLegalMoves(p, movegen.GenNonQuiet)
			case 2:
				mg.GeneratePseudoLegalMoves(other, movegen.GenAll, false)
				mg.GenerateLegalMoves(p, movegen.GenQuiet)
			case 3:
				if ol := mg.GenerateLegalMoves(other, movegen.GenAll); ol.Len() > 0 {
					mg.ValidateMove(other, ol.At(0))
				}
			}
		}
		defer func() { cp := *p; other = &cp }()
		for _, m := range legal {
			em := toEng(m)
			cls := moveClass(b, m)
			// UCI
			for _, s := range []string{em.StringUci(), strings.ToLower(em.StringUci())} {
				rep.Eval(1)
				rep.Inc("uci_roundtrips")
				rep.DistinctStr(b.RepKey() + s)
				disturb()
				if got := mg.GetMoveFromUci(p, s); got.MoveOf() != em {
					rep.Viol("uci-roundtrip:"+cls, fmt.Sprintf("GetMoveFromUci(%q) = %s, want %s in %s", s, got.StringUci(), em.StringUci(), fen), mk(map[string]interface{}{"string": s}))
				}
			}
			rep.Eval(1)
			if !mg.ValidateMove(p, em) {
				rep.Viol("validate:legal-rejected:"+cls, fmt.Sprintf("ValidateMove(%s)=false for a legal move in %s", em.StringUci(), fen), mk(nil))
			}
			// SAN variants
			seen := map[string]bool{}
			for _, o := range variants {
				s := b.SAN(m, o)
				if seen[s] {
					continue
				}
				seen[s] = true
				rep.Eval(1)
				rep.Inc("san_roundtrips")
				rep.DistinctStr(b.RepKey() + s)
				disturb()
				if got := mg.GetMoveFromSan(p, s); got.MoveOf() != em {
					rep.Viol("san-roundtrip:"+cls, fmt.Sprintf("GetMoveFromSan(%q) = %s, want %s in %s", s, got.StringUci(), em.StringUci(), fen), mk(map[string]interface{}{"string": s, "move": m.UCI()}))
				}
			}
			std := b.SAN(m, rc.SanOpts{})
			switch {
			case m.Kind == rc.Castling:
				rep.Inc("san_castling")
			case m.Kind == rc.Promotion:
				rep.Inc("san_promotions")
			}
			if strings.HasSuffix(std, "+") {
				rep.Inc("san_checks")
			}
			if strings.HasSuffix(std, "#") {
				rep.Inc("san_mates")
			}
			pc := b.Sq[m.From]
			if pc != 'P' && pc != 'p' && m.Kind != rc.Castling {
				body := strings.TrimRight(std, "+#")
				body = strings.Replace(body, "x", "", 1)
				switch len(body) {
				case 4:
					if body[1] >= 'a' && body[1] <= 'h' {
						rep.Inc("san_disambig_file")
					} else {
						rep.Inc("san_disambig_rank")
					}
				case 5:
					rep.Inc("san_disambig_both")
				}
				// negative: ambiguous when the needed disambiguation is removed
				if g := groups[pk{pc, m.To}]; len(g) > 1 {
					s := string(pc&^32) + rc.SqName(m.To)
					if b.Sq[m.To] != 0 {
						s = string(pc&^32) + "x" + rc.SqName(m.To)
					}
					rep.Eval(1)
					rep.Inc("neg_ambiguous")
					disturb()
					if got := mg.GetMoveFromSan(p, s); got != types.MoveNone {
						rep.Viol("san-negative:ambiguous-accepted", fmt.Sprintf("GetMoveFromSan(%q) = %s although %d legal moves match, in %s", s, got.StringUci(), len(g), fen), mk(map[string]interface{}{"string": s}))
					}
				}
			}
		}
		// negative: SAN of a pseudo-legal but illegal move (pinned / king walks into check)
		for _, m := range b.PseudoLegal() {
			if legalKeys[rcKey(m)] || m.Kind == rc.Castling || m.Kind == rc.Promotion {
				continue
			}
			pc := b.Sq[m.From]
			if len(groups[pk{pc, m.To}]) > 0 {
				continue // another piece of that type can legally go there: the string would denote that move
			}
			var s string
			if pc == 'P' || pc == 'p' {
				if b.IsCapture(m) {
					s = string(byte('a'+rc.File(m.From))) + "x" + rc.SqName(m.To)
					// another pawn capture from the same file to that square cannot exist
				} else {
					s = rc.SqName(m.To)
				}
			} else {
				s = string(pc&^32) + rc.SqName(m.To)
				if b.Sq[m.To] != 0 {
					s = string(pc&^32) + "x" + rc.SqName(m.To)
				}
			}
			rep.Eval(2)
			rep.Inc("neg_pinned")
			disturb()
			if got := mg.GetMoveFromSan(p, s); got != types.MoveNone {
				rep.Viol("san-negative:illegal-accepted", fmt.Sprintf("GetMoveFromSan(%q) = %s but that move is illegal in %s", s, got.StringUci(), fen), mk(map[string]interface{}{"string": s}))
			}
			disturb()
			if got := mg.GetMoveFromUci(p, m.UCI()); got != types.MoveNone {
				rep.Viol("uci-negative:illegal-accepted", fmt.Sprintf("GetMoveFromUci(%q) = %s but that move is illegal in %s", m.UCI(), got.StringUci(), fen), mk(nil))
			}
			if mg.ValidateMove(p, toEng(m)) {
				rep.Viol("validate:illegal-accepted", fmt.Sprintf("ValidateMove(%s)=true for an illegal move in %s", m.UCI(), fen), mk(nil))
			}
		}
		// negative: a legal move's coordinates with a promotion letter it cannot carry, and a
		// promotion's coordinates with the letter missing or of no piece
		for k := 0; k < 3 && len(legal) > 0; k++ {
			m := legal[dr.Intn(len(legal))]
			u := m.UCI()
			var s string
			if m.Kind == rc.Promotion {
				s = u[:4] + []string{"", "k", "p", "x"}[dr.Intn(4)]
			} else {
				s = u + string("qrbnQRBN"[dr.Intn(8)])
			}
			rep.Eval(1)
			rep.Inc("neg_uci_wrong_suffix")
			disturb()
			if got := mg.GetMoveFromUci(p, s); got != types.MoveNone {
				rep.Viol("uci-negative:wrong-promotion-suffix-accepted", fmt.Sprintf("GetMoveFromUci(%q) = %s although that string denotes no legal move in %s", s, got.StringUci(), fen), mk(map[string]interface{}{"string": s}))
			}
		}
		// negative: random coordinate strings / piece-target pairs denoting no legal move
		r := NewRng(hashStr(fen) ^ c.Seed)
		uciSet := map[string]bool{}
		for _, m := range legal {
			uciSet[m.UCI()[:4]] = true
		}
		for i := 0; i < 12; i++ {
			from, to := r.Intn(64), r.Intn(64)
			s := rc.SqName(from) + rc.SqName(to)
			if uciSet[s] {
				continue
			}
			rep.Eval(2)
			rep.Inc("neg_uci")
			disturb()
			if got := mg.GetMoveFromUci(p, s); got != types.MoveNone {
				rep.Viol("uci-negative:nonlegal-accepted", fmt.Sprintf("GetMoveFromUci(%q) = %s which is not legal in %s", s, got.StringUci(), fen), mk(nil))
			}
			if mg.ValidateMove(p, types.CreateMove(types.Square(from), types.Square(to), types.Normal, types.PtNone)) && from != to {
				rep.Viol("validate:nonlegal-accepted", fmt.Sprintf("ValidateMove(%s) true for a non-legal move in %s", s, fen), mk(nil))
			}
		}
		for i := 0; i < 8; i++ {
			pt := "NBRQK"[r.Intn(5)]
			to := r.Intn(64)
			pc := pt
			if !b.White {
				pc = pt + 32
			}
			if len(groups[pk{pc, to}]) > 0 {
				continue
			}
			// "Kg1"/"Kc1" style strings alias castling in the engine's lenient parser: not judged
			if pt == 'K' {
				skip := false
				for _, m := range legal {
					if m.Kind == rc.Castling && m.To == to {
						skip = true
					}
				}
				if skip {
					continue
				}
			}
			s := string(pt) + rc.SqName(to)
			rep.Eval(1)
			rep.Inc("neg_no_such_move")
			disturb()
			if got := mg.GetMoveFromSan(p, s); got != types.MoveNone {
				rep.Viol("san-negative:no-such-move-accepted", fmt.Sprintf("GetMoveFromSan(%q) = %s but no such legal move exists in %s", s, got.StringUci(), fen), mk(nil))
			}
		}
	}
	nPlay := c.Size(120, 24000)
	nSynth := c.Size(900, 180000)
	sampled := 0
	forEachGame(c, "c17", nPlay, 80, nSynth, func(g Game) {
		p := engPos(g.Start.FEN())
		probe(p, g.Start, map[string]interface{}{"kind": g.Kind})
		for i, st := range g.Steps {
			p.DoMove(toEng(st.Move))
			if i%6 == 5 || st.Move.Kind != rc.Normal {
				probe(p, st.After, map[string]interface{}{"start": g.Start.FEN(), "moves": stepMoves(g.Steps, i+1)})
			}
		}
		if sampled < 2 && len(g.Start.Legal()) > 0 {
			sampled++
			m := g.Start.Legal()[0]
			rep.Sample(map[string]interface{}{"fen": g.Start.FEN(), "move": m.UCI(), "san": g.Start.SAN(m, rc.SanOpts{})})
		}
	})
	// positions rich in ambiguity: several knights/rooks/queens able to reach the same square
	amb := []string{
		"4k3/8/8/8/1N3N2/8/1N3N2/4K3 w - - 0 1",
		"4k3/8/8/R6R/8/8/8/R3K2R w - - 0 1",
		"4k3/8/2Q1Q3/8/2Q1Q3/8/8/4K3 w - - 0 1",
		"3rkr2/8/8/8/8/8/8/3RKR2 b - - 0 1",
		"k7/8/8/1q1q4/8/1q1q4/8/6K1 b - - 0 1",
		"4k3/8/8/2B1B3/8/2B1B3/8/4K3 w - - 0 1",
	}
	for i, f := range amb {
		if c.Mine(i) {
			b := rc.MustFEN(f)
			probe(engPos(f), b, nil)
			probe(engPos(b.Mirror().FEN()), b.Mirror(), nil)
		}
	}
	c17encoding(c)
}

func c17encoding(c *Ctx) {
	rep := c.Rep
	vals := []types.Value{types.ValueNA, types.ValueNA + 1, -15000, -10001, -10000, -9999, -9872, -5000, -4001, -4000, -1, 0, 1, 77, 4000, 5000, 9871, 9872, 9999, 10000, 10001, 14999, 15000, -32, 255, 256}
	idx := 0
	for from := 0; from < 64; from++ {
		if !c.Mine(from) {
			continue
		}
		for to := 0; to < 64; to++ {
			for t := types.Normal; t <= types.Castling; t++ {
				for pt := types.Knight; pt <= types.Queen; pt++ {
					idx++
					m := types.CreateMove(types.Square(from), types.Square(to), t, pt)
					rep.Eval(1)
					rep.Inc("encodings")
					rep.Distinct(uint64(m) | 1<<40)
					bad := func(what string, extra string) {
						rep.Viol("encoding:"+what, fmt.Sprintf("CreateMove(%s,%s,%v,%v): %s %s", rc.SqName(from), rc.SqName(to), t, pt, what, extra),
							map[string]interface{}{"from": from, "to": to, "type": int(t), "promo": int(pt)})
					}
					if int(m.From()) != from {
						bad("From", fmt.Sprint(m.From()))
					}
					if int(m.To()) != to {
						bad("To", fmt.Sprint(m.To()))
					}
					if m.MoveType() != t {
						bad("MoveType", fmt.Sprint(m.MoveType()))
					}
					if m.PromotionType() != pt {
						bad("PromotionType", fmt.Sprint(m.PromotionType()))
					}
					if m.MoveOf() != m {
						bad("MoveOf", "changes a value-less move")
					}
					if m == types.MoveNone {
						// a1a1 normal knight is the MoveNone encoding: documented to refuse values
						x := m
						x.SetValue(5)
						if x != types.MoveNone {
							bad("MoveNone-accepts-value", "")
						}
						continue
					}
					if m.ValueOf() != types.ValueNA {
						bad("ValueOf-fresh", fmt.Sprint(m.ValueOf()))
					}
					for _, v := range vals {
						x := m
						x.SetValue(v)
						rep.Eval(1)
						if x.ValueOf() != v {
							bad("SetValue-ValueOf", fmt.Sprintf("set %d read %d", v, x.ValueOf()))
						}
						if x.MoveOf() != m {
							bad("SetValue-changes-move", fmt.Sprintf("value %d", v))
						}
						if int(x.From()) != from || int(x.To()) != to || x.MoveType() != t || x.PromotionType() != pt {
							bad("SetValue-changes-fields", fmt.Sprintf("value %d", v))
						}
						y := types.CreateMoveValue(types.Square(from), types.Square(to), t, pt, v)
						if y != x {
							bad("CreateMoveValue", fmt.Sprintf("value %d: %d != %d", v, y, x))
						}
					}
					// overwriting: the value of a move that already carries one (the move sorter
					// re-values moves in place); every ordered pair of neighbours in vals, both directions,
					// starting from a move created with a value
					z := types.CreateMoveValue(types.Square(from), types.Square(to), t, pt, vals[len(vals)-1])
					for k := 0; k < 2*len(vals); k++ {
						v := vals[k%len(vals)]
						if k >= len(vals) {
							v = vals[2*len(vals)-1-k]
						}
						z.SetValue(v)
						rep.Eval(1)
						if z.ValueOf() != v {
							bad("SetValue-overwrite", fmt.Sprintf("set %d on a move that carried a value, read %d", v, z.ValueOf()))
							break
						}
						if z.MoveOf() != m {
							bad("SetValue-overwrite-changes-move", fmt.Sprintf("value %d", v))
							break
						}
					}
					// full value range on a subset of moves
					if idx%128 == 0 {
						for v := types.ValueNA; v <= types.ValueInf; v++ {
							x := m
							x.SetValue(v)
							rep.Eval(1)
							if x.ValueOf() != v || x.MoveOf() != m {
								bad("value-range", fmt.Sprintf("value %d", v))
								break
							}
						}
						rep.Inc("full_range_moves")
					}
					// string form
					want := rc.SqName(from) + rc.SqName(to)
					if t == types.Promotion {
						want += pt.Char()
					}
					if m.StringUci() != want {
						bad("StringUci", m.StringUci())
					}
				}
			}
		}
	}
}
