package main

import (
	"fmt"
	"sort"

	"github.com/frankkopp/FrankyGo/internal/attacks"
	"github.com/frankkopp/FrankyGo/internal/movegen"
	"github.com/frankkopp/FrankyGo/internal/position"
	"github.com/frankkopp/FrankyGo/internal/types"
	rc "github.com/frankkopp/FrankyGo/verifh/refchess"
)

func init() {
	register(&CheckSpec{
		ID: "C09", Fn: c09,
		Rule:        "one evaluation = one predicate call compared with refchess: HasCheck per position (cached flag exercised before/after do-undo, and after every undo of moves and null moves inside a search-like walk on one position object), IsAttacked and AttacksTo for all 64 squares x both colours (each call under recover), GivesCheck / IsLegalMove / DoMove+WasLegalMove for every pseudo-legal move, the two legality tests also on a position object just set up from the FEN on which nothing else was asked before; distinct = distinct position identities probed",
		Assumptions: []string{"E1/E2 en-passant conventions: required when the ep capture is legal, tolerated when it is only pseudo-legal, forbidden otherwise (incl. for the colour that just pushed)"},
		Required:    []string{"positions", "attack_queries", "moves_checked", "ep_target_a_or_h_file", "ep_positions_white_to_move", "ep_positions_black_to_move", "e1_required", "e2_required", "castling_pseudo_illegal", "gives_check_true", "discovered_check_by_ep", "in_check_positions", "walk_hascheck_tests", "walk_nodes_not_asked_on_entry", "walk_null_moves", "cold_legality_tests", "heavy_trade_down_games", "heavy_game_phase_counter_zero_with_sliders"},
		MinEvals:    50000,
	})
}

func sqList(bb types.Bitboard) []int {
	var r []int
	for bb != 0 {
		r = append(r, int(bb.PopLsb()))
	}
	sort.Ints(r)
	return r
}

func c09(c *Ctx) {
	rep := c.Rep
	mg := movegen.NewMoveGen()

	probe := func(p *position.Position, b *rc.Board, how string, ctx map[string]interface{}) {
		rep.Inc("positions")
		rep.DistinctStr(b.RepKey())
		fen := b.FEN()
		mk := func(extra map[string]interface{}) map[string]interface{} {
			r := map[string]interface{}{"fen": fen, "how": how}
			for k, v := range ctx {
				r[k] = v
			}
			for k, v := range extra {
				r[k] = v
			}
			return r
		}
		// --- HasCheck (twice: computes, then cached)
		want := b.InCheck(b.White)
		if want {
			rep.Inc("in_check_positions")
		}
		for i := 0; i < 2; i++ {
			rep.Eval(1)
			if got := p.HasCheck(); got != want {
				rep.Viol("HasCheck", fmt.Sprintf("HasCheck()=%v but king attacked=%v in %s (%s, call %d)", got, want, fen, how, i+1), mk(nil))
			}
		}
		// --- ep conventions
		pushed := -1
		epPseudo, epLegal := false, false
		if b.Ep >= 0 {
			if b.White {
				pushed = b.Ep - 8
				rep.Inc("ep_positions_white_to_move")
			} else {
				pushed = b.Ep + 8
				rep.Inc("ep_positions_black_to_move")
			}
			if f := rc.File(b.Ep); f == 0 || f == 7 {
				rep.Inc("ep_target_a_or_h_file")
			}
			for _, m := range b.PseudoLegal() {
				if m.Kind == rc.EnPassant {
					epPseudo = true
					if b.IsLegal(m) {
						epLegal = true
					}
				}
			}
		}
		for col := 0; col < 2; col++ {
			white := col == 0
			ec := types.White
			if !white {
				ec = types.Black
			}
			for sq := 0; sq < 64; sq++ {
				rep.Eval(2)
				rep.Inc("attack_queries")
				ref := b.Attackers(sq, white)
				sort.Ints(ref)
				base := len(ref) > 0
				e1 := sq == pushed && white == b.White && epPseudo
				var got bool
				if pn, msg := guard(func() { got = p.IsAttacked(types.Square(sq), ec) }); pn {
					rep.Viol(fmt.Sprintf("IsAttacked:panic:ep-file=%s", epFileTag(b)), fmt.Sprintf("IsAttacked(%s, %v) panics in %s: %s", rc.SqName(sq), ec, fen, msg), mk(map[string]interface{}{"square": rc.SqName(sq), "by": col}))
				} else {
					switch {
					case base && !got:
						rep.Viol("IsAttacked:false-negative", fmt.Sprintf("IsAttacked(%s, by %v)=false but attackers %v in %s", rc.SqName(sq), ec, sqNames(ref), fen), mk(nil))
					case !base && got && !e1:
						rep.Viol("IsAttacked:false-positive", fmt.Sprintf("IsAttacked(%s, by %v)=true but nothing attacks it (ep=%s) in %s", rc.SqName(sq), ec, rc.SqName(b.Ep), fen), mk(nil))
					case !base && !got && e1 && epLegal:
						rep.Viol("IsAttacked:ep-convention-missing", fmt.Sprintf("IsAttacked(%s, by %v)=false although the pawn can be captured en passant in %s", rc.SqName(sq), ec, fen), mk(nil))
					}
					if e1 && epLegal && !base {
						rep.Inc("e1_required")
					}
				}
				// AttacksTo
				e2 := sq == b.Ep && b.Ep >= 0 && white == b.White && epPseudo
				var bb types.Bitboard
				if pn, msg := guard(func() { bb = attacks.AttacksTo(p, types.Square(sq), ec) }); pn {
					rep.Viol("AttacksTo:panic", fmt.Sprintf("AttacksTo(%s, %v) panics in %s: %s", rc.SqName(sq), ec, fen, msg), mk(nil))
					continue
				}
				gotL := sqList(bb)
				wantL := append([]int(nil), ref...)
				wantOpt := append([]int(nil), ref...)
				if e2 {
					wantOpt = append(wantOpt, pushed)
					sort.Ints(wantOpt)
					if epLegal {
						wantL = wantOpt
						rep.Inc("e2_required")
					}
				}
				if !eqInts(gotL, wantL) && !eqInts(gotL, wantOpt) {
					kind := "wrong-set"
					if len(gotL) > len(wantOpt) {
						kind = "extra-square"
					} else if len(gotL) < len(wantL) {
						kind = "missing-attacker"
					}
					if b.Ep >= 0 && sq == b.Ep {
						kind += ":on-ep-target"
					}
					rep.Viol("AttacksTo:"+kind, fmt.Sprintf("AttacksTo(%s, by %v)=%v, attackers are %v (ep=%s) in %s", rc.SqName(sq), ec, sqNames(gotL), sqNames(wantL), rc.SqName(b.Ep), fen), mk(nil))
				}
			}
		}
		// --- move predicates
		ml := mg.GeneratePseudoLegalMoves(p, movegen.GenAll, false)
		moves := make([]types.Move, len(*ml))
		copy(moves, *ml)
		before := p.StringFen()
		for _, m := range moves {
			rm := fromEng(m)
			rep.Eval(3)
			rep.Inc("moves_checked")
			legalRef := b.IsLegal(rm)
			after := b.Apply(rm)
			givesRef := after.InCheck(after.White)
			cls := moveClass(b, rm)
			if !legalRef && rm.Kind == rc.Castling {
				rep.Inc("castling_pseudo_illegal")
			}
			var gives, isLegal, wasLegal bool
			if pn, msg := guard(func() { gives = p.GivesCheck(m) }); pn {
				rep.Viol("GivesCheck:panic", fmt.Sprintf("GivesCheck(%s) panics in %s: %s", m.StringUci(), fen, msg), mk(nil))
			} else if gives != givesRef && legalRef {
				// only judged for legal moves: after an illegal move the board is not a
				// chess position (kings may touch), "in check" is not defined there
				k := "GivesCheck:" + cls
				rep.Viol(k, fmt.Sprintf("GivesCheck(%s)=%v but opponent in check afterwards=%v in %s", m.StringUci(), gives, givesRef, fen), mk(map[string]interface{}{"move": m.StringUci()}))
			}
			if givesRef && legalRef {
				rep.Inc("gives_check_true")
				if rm.Kind == rc.EnPassant {
					// is it discovered through the removed pawn or the mover?
					direct := false
					for _, a := range after.Attackers(after.KingSq(after.White), !after.White) {
						if a == rm.To {
							direct = true
						}
					}
					if !direct {
						rep.Inc("discovered_check_by_ep")
					}
				}
			}
			if pn, msg := guard(func() { isLegal = p.IsLegalMove(m) }); pn {
				rep.Viol("IsLegalMove:panic", fmt.Sprintf("IsLegalMove(%s) panics in %s: %s", m.StringUci(), fen, msg), mk(nil))
				continue
			}
			if pn, msg := guard(func() { p.DoMove(m); wasLegal = p.WasLegalMove(); p.UndoMove() }); pn {
				rep.Viol("WasLegalMove:panic", fmt.Sprintf("DoMove(%s)/WasLegalMove panics in %s: %s", m.StringUci(), fen, msg), mk(nil))
				return
			}
			if isLegal != legalRef {
				rep.Viol("IsLegalMove:"+cls, fmt.Sprintf("IsLegalMove(%s)=%v, rules say %v in %s", m.StringUci(), isLegal, legalRef, fen), mk(map[string]interface{}{"move": m.StringUci()}))
			}
			if wasLegal != legalRef {
				rep.Viol("WasLegalMove:"+cls, fmt.Sprintf("after DoMove(%s) WasLegalMove()=%v, rules say %v in %s", m.StringUci(), wasLegal, legalRef, fen), mk(map[string]interface{}{"move": m.StringUci()}))
			}
		}
		if p.StringFen() != before {
			rep.Viol("predicates-modify-position", "position changed by predicate calls: "+before+" -> "+p.StringFen(), mk(nil))
		}
		// --- the legality tests on a cold object: a position just built from the FEN on which
		// nothing was asked before (no cached in-check answer), each test alone and first
		for mi, m := range moves {
			rm := fromEng(m)
			legalRef := b.IsLegal(rm)
			if rm.Kind != rc.Castling && rm.Kind != rc.EnPassant && !want && mi%4 != 0 {
				continue // every special move and everything while in check, a quarter of the rest
			}
			rep.Eval(2)
			rep.Inc("cold_legality_tests")
			cold := engPos(fen)
			var wasLegal, isLegal bool
			if pn, msg := guard(func() { cold.DoMove(m); wasLegal = cold.WasLegalMove(); cold.UndoMove() }); pn {
				rep.Viol("WasLegalMove:panic", fmt.Sprintf("DoMove(%s)/WasLegalMove panics on a fresh position %s: %s", m.StringUci(), fen, msg), mk(nil))
				continue
			}
			if wasLegal != legalRef {
				rep.Viol("WasLegalMove:cold:"+moveClass(b, rm), fmt.Sprintf("on a position just set up from %s, after DoMove(%s) WasLegalMove()=%v, rules say %v", fen, m.StringUci(), wasLegal, legalRef), mk(map[string]interface{}{"move": m.StringUci()}))
			}
			cold2 := engPos(fen)
			if pn, _ := guard(func() { isLegal = cold2.IsLegalMove(m) }); !pn && isLegal != legalRef {
				rep.Viol("IsLegalMove:cold:"+moveClass(b, rm), fmt.Sprintf("on a position just set up from %s IsLegalMove(%s)=%v, rules say %v", fen, m.StringUci(), isLegal, legalRef), mk(map[string]interface{}{"move": m.StringUci()}))
			}
		}
		// cached flag after do/undo excursions
		rep.Eval(1)
		if got := p.HasCheck(); got != want {
			rep.Viol("HasCheck:after-excursion", fmt.Sprintf("HasCheck()=%v after do/undo excursions, king attacked=%v in %s", got, want, fen), mk(nil))
		}
	}

	nPlay := c.Size(120, 40000)
	nSynth := c.Size(1200, 400000)
	sampled := 0
	forEachGame(c, "c09", nPlay, 80, nSynth, func(g Game) {
		p := engPos(g.Start.FEN())
		probe(p, g.Start, "from-fen", map[string]interface{}{"kind": g.Kind})
		for i, st := range g.Steps {
			p.DoMove(toEng(st.Move))
			if i%5 == 4 || st.After.Ep >= 0 || st.Move.Kind != rc.Normal {
				ctx := map[string]interface{}{"start": g.Start.FEN(), "moves": stepMoves(g.Steps, i+1)}
				probe(p, st.After, "by-play", ctx)
				if st.After.Ep >= 0 {
					probe(engPos(st.After.FEN()), st.After, "from-fen", ctx)
				}
			}
		}
		// search-like walk on the one position object: the cached in-check answer has to stay
		// right through do/undo of moves and null moves at changing history depths
		if len(g.Steps) > 0 {
			last := g.Steps[len(g.Steps)-1].After
			checkWalk(rep, SubRng(c.Seed, "c09/walk/"+g.Start.FEN(), len(g.Steps)), p, last, 3,
				map[string]interface{}{"start": g.Start.FEN(), "moves": stepMoves(g.Steps, len(g.Steps))})
		}
		if sampled < 2 {
			sampled++
			rep.Sample(map[string]interface{}{"fen": g.Start.FEN(), "queries": "HasCheck, 64x2 IsAttacked/AttacksTo, GivesCheck/IsLegalMove/WasLegalMove for all pseudo-legal moves"})
		}
	})
	// trade-down games from boards crowded with heavy pieces (as after many promotions), with
	// captures by king and pawns preferred: the incremental bookkeeping of the position
	// (material, game phase) goes through its extremes while sliders are still on the board
	nHeavy := c.Size(160, 6000)
	for hi := 0; hi < nHeavy; hi++ {
		if !c.Mine(hi) {
			continue
		}
		hr := SubRng(c.Seed, "c09/heavy", hi)
		hb := heavyPosition(hr)
		// a few pawns, so that pawn captures exist too
		for k := 0; k < 6; k++ {
			sq := 8 + hr.Intn(48)
			if hb.Sq[sq] == 0 {
				nb := *hb
				nb.Sq[sq] = "Pp"[hr.Intn(2)]
				if nb.Validate() == nil && len(nb.Legal()) > 0 {
					hb = &nb
				}
			}
		}
		p := engPos(hb.FEN())
		b := hb
		var played []string
		for ply := 0; ply < 90; ply++ {
			ms := b.Legal()
			if len(ms) == 0 {
				break
			}
			var kp, caps []rc.Move
			for _, m := range ms {
				if b.Sq[m.To] != 0 {
					caps = append(caps, m)
					if pc := b.Sq[m.From]; pc == 'K' || pc == 'k' || pc == 'P' || pc == 'p' {
						kp = append(kp, m)
					}
				}
			}
			m := ms[hr.Intn(len(ms))]
			if len(kp) > 0 && hr.Chance(0.8) {
				m = kp[hr.Intn(len(kp))]
			} else if len(caps) > 0 && hr.Chance(0.85) {
				m = caps[hr.Intn(len(caps))]
			}
			p.DoMove(toEng(m))
			b = b.Apply(m)
			played = append(played, m.UCI())
			sliders := false
			for _, pc := range b.Sq {
				switch pc {
				case 'Q', 'R', 'B', 'q', 'r', 'b':
					sliders = true
				}
			}
			zero := p.GamePhase() == 0 && sliders
			if zero {
				rep.Inc("heavy_game_phase_counter_zero_with_sliders")
			}
			if zero || ply%6 == 5 {
				probe(p, b, "by-play-heavy", map[string]interface{}{"start": hb.FEN(), "moves": append([]string(nil), played...)})
			}
		}
		rep.Inc("heavy_trade_down_games")
	}
	// dedicated ep sweep: ep targets on every file, both colours, with and without capturers
	idx := 0
	for f := 0; f < 8; f++ {
		for variant := 0; variant < 6; variant++ {
			for _, white := range []bool{true, false} {
				idx++
				if !c.Mine(idx) {
					continue
				}
				b := &rc.Board{Ep: -1, Full: 10}
				b.Sq[rc.Sq(4, 0)], b.Sq[rc.Sq(4, 7)] = 'K', 'k'
				// black just pushed (white to move) or white just pushed
				pr, er, pawn, cap := 4, 5, byte('p'), byte('P')
				if !white {
					pr, er, pawn, cap = 3, 2, 'P', 'p'
				}
				b.White = white
				b.Sq[rc.Sq(f, pr)] = pawn
				b.Ep = rc.Sq(f, er)
				if variant&1 != 0 && f > 0 {
					b.Sq[rc.Sq(f-1, pr)] = cap
				}
				if variant&2 != 0 && f < 7 {
					b.Sq[rc.Sq(f+1, pr)] = cap
				}
				if variant >= 4 {
					// add a rook on the rank to create the rank-pin situation sometimes
					if f < 6 {
						b.Sq[rc.Sq(7, pr)] = map[bool]byte{true: 'r', false: 'R'}[white]
					}
				}
				if b.Validate() != nil {
					continue
				}
				probe(engPos(b.FEN()), b, "ep-sweep", nil)
			}
		}
	}
}

// checkWalk walks a small tree below (p, b) the way the search does - in-check test, null
// move try, then moves - and compares the in-check answer with the rules after every undo.
func checkWalk(rep *Rep, r *Rng, p *position.Position, b *rc.Board, depth int, ctx map[string]interface{}) {
	want := b.InCheck(b.White)
	test := func(when string) {
		rep.Eval(1)
		rep.Inc("walk_hascheck_tests")
		if got := p.HasCheck(); got != want {
			pl := map[string]interface{}{"fen": b.FEN(), "when": when}
			for k, v := range ctx {
				pl[k] = v
			}
			rep.Viol("HasCheck:walk:"+when, fmt.Sprintf("HasCheck()=%v %s, king attacked=%v in %s (position reached inside a do/undo walk)", got, when, want, b.FEN()), pl)
		}
	}
	// (not at every node: a position whose in-check status was never asked before a move is
	// made and taken back must still answer correctly afterwards)
	if r.Chance(0.5) || depth <= 0 {
		test("on-entry")
	} else {
		rep.Inc("walk_nodes_not_asked_on_entry")
	}
	if depth <= 0 {
		return
	}
	if !want {
		p.DoNullMove()
		p.UndoNullMove()
		rep.Inc("walk_null_moves")
		test("after-null-undo")
	}
	legal := b.Legal()
	// checking moves first, then a random few
	var order []rc.Move
	var rest []rc.Move
	for _, m := range legal {
		n := b.Apply(m)
		if n.InCheck(n.White) {
			order = append(order, m)
		} else {
			rest = append(rest, m)
		}
	}
	if len(order) > 2 {
		order = order[:2]
	}
	for k := 0; k < 3 && len(rest) > 0; k++ {
		i := r.Intn(len(rest))
		order = append(order, rest[i])
		rest = append(rest[:i], rest[i+1:]...)
	}
	for _, m := range order {
		p.DoMove(toEng(m))
		checkWalk(rep, r, p, b.Apply(m), depth-1, ctx)
		p.UndoMove()
		test("after-undo")
	}
}

func epFileTag(b *rc.Board) string {
	if b.Ep < 0 {
		return "none"
	}
	return string(byte('a' + rc.File(b.Ep)))
}

func sqNames(l []int) []string {
	r := make([]string, len(l))
	for i, s := range l {
		r[i] = rc.SqName(s)
	}
	return r
}

func eqInts(a, b []int) bool {
	if len(a) != len(b) {
		return false
	}
	for i := range a {
		if a[i] != b[i] {
			return false
		}
	}
	return true
}
