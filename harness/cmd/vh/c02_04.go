package main

import (
	"fmt"
	"strings"

	"github.com/frankkopp/FrankyGo/internal/evaluator"
	"github.com/frankkopp/FrankyGo/internal/movegen"
	"github.com/frankkopp/FrankyGo/internal/position"
	"github.com/frankkopp/FrankyGo/internal/types"
	rc "github.com/frankkopp/FrankyGo/verifh/refchess"
)

func init() {
	register(&CheckSpec{
		ID: "C02", Fn: c02,
		Rule:        "one evaluation = one (position, legal move) pair: engine DoMove result (FEN string + per-square piece accessor, rights, ep square, clock, side) compared with refchess successor; plus whole games up to 500 plies compared ply by ply; distinct = distinct (position identity, move) pairs",
		Assumptions: []string{"refchess successor function incl. FEN convention 'ep target after every double push'"},
		Required:    []string{"pairs", "castling_moves", "ep_moves", "promotion_moves", "rook_home_captures", "king_moves_with_rights", "long_games_400plus", "black_start_games", "promo_capture_corner", "fen_variant_games"},
		MinEvals:    10000,
	})
	register(&CheckSpec{
		ID: "C03", Fn: c03,
		Rule:        "one evaluation = one undo (or null-undo) after which all public observables are compared with the snapshot taken before the matching do; excursions are randomised depth-first walks over pseudo-legal moves (illegal ones undone immediately, as the search does) with null moves; distinct = distinct positions at which an undo was checked",
		Assumptions: []string{"observables = public getters listed in C03 + Evaluate; raw struct equality is not demanded"},
		Required:    []string{"undo_checked", "null_undo_checked", "near_capacity_roots", "undo_promotion", "undo_promotion_capture", "undo_enpassant", "undo_castling", "undo_illegal_pseudo", "depth_ge_6", "nodes_before_snapshot_from_copy"},
		MinEvals:    10000,
	})
	register(&CheckSpec{
		ID: "C04", Fn: c04,
		Rule:        "one evaluation = one position reached by play (incl. games of 1100+ plies with a one/two-ply look-ahead taken back after every move near each wrap of the 512-entry history) whose incremental observables are compared with a fresh position from its FEN and with sums over the board; key function: two-way dictionary canonical(placement,side,rights,ep) <-> key over played positions, FEN-built positions (incl. FENs with ep square), transposed move orders and minimally different neighbours; distinct = distinct canonical identities entered in the dictionary",
		Assumptions: []string{"published per-piece values = PieceType.ValueOf / PosMidValue / PosEndValue / GamePhaseValue; GamePhase = min(24, sum)"},
		Required:    []string{"played_positions", "fen_with_ep", "transposition_pairs", "neighbour_pairs", "dict_entries", "promotion_plies_full_officers", "long_games", "long_game_lookaheads", "null_move_positions", "null_move_with_pending_ep"},
		MinEvals:    10000,
	})
}

func fenFieldDiff(a, b string) string {
	fa, fb := strings.Fields(a), strings.Fields(b)
	names := []string{"placement", "side", "castling", "ep", "halfmove", "fullmove"}
	for i := 0; i < 6 && i < len(fa) && i < len(fb); i++ {
		if fa[i] != fb[i] {
			return names[i]
		}
	}
	return "fields"
}

var pieceChars = map[types.Piece]byte{
	types.WhiteKing: 'K', types.WhitePawn: 'P', types.WhiteKnight: 'N', types.WhiteBishop: 'B', types.WhiteRook: 'R', types.WhiteQueen: 'Q',
	types.BlackKing: 'k', types.BlackPawn: 'p', types.BlackKnight: 'n', types.BlackBishop: 'b', types.BlackRook: 'r', types.BlackQueen: 'q',
}

// compareSuccessor checks the engine position p against the refchess board b.
func compareSuccessor(rep *Rep, p *position.Position, b *rc.Board, cls string, ctx map[string]interface{}) {
	want := b.FEN()
	if got := p.StringFen(); got != want {
		ctx["engine_fen"] = got
		ctx["rules_fen"] = want
		rep.Viol("domove:fen:"+fenFieldDiff(got, want)+":"+cls, fmt.Sprintf("after %v engine FEN %q, rules give %q", ctx["move"], got, want), ctx)
		return
	}
	for sq := 0; sq < 64; sq++ {
		if pieceChars[p.GetPiece(types.Square(sq))] != b.Sq[sq] {
			rep.Viol("domove:GetPiece:"+cls, fmt.Sprintf("GetPiece(%s) disagrees with FEN %s", rc.SqName(sq), want), ctx)
			return
		}
	}
	if p.CastlingRights().String() != b.CastleString() {
		rep.Viol("domove:CastlingRights:"+cls, "CastlingRights() disagrees with "+want, ctx)
	}
	if p.GetEnPassantSquare().String() != rc.SqName(b.Ep) {
		rep.Viol("domove:GetEnPassantSquare:"+cls, "GetEnPassantSquare() disagrees with "+want, ctx)
	}
	if p.HalfMoveClock() != b.Half {
		rep.Viol("domove:HalfMoveClock:"+cls, "HalfMoveClock() disagrees with "+want, ctx)
	}
	if (p.NextPlayer() == types.White) != b.White {
		rep.Viol("domove:NextPlayer:"+cls, "NextPlayer() disagrees with "+want, ctx)
	}
}

func c02(c *Ctx) {
	rep := c.Rep
	feat := func(b *rc.Board, m rc.Move) {
		rep.Inc("pairs")
		switch m.Kind {
		case rc.Castling:
			rep.Inc("castling_moves")
		case rc.EnPassant:
			rep.Inc("ep_moves")
		case rc.Promotion:
			rep.Inc("promotion_moves")
			if b.Sq[m.To] != 0 && (m.To == 0 || m.To == 7 || m.To == 56 || m.To == 63) {
				rep.Inc("promo_capture_corner")
			}
		}
		if t := b.Sq[m.To]; (t == 'R' || t == 'r') && (m.To == 0 || m.To == 7 || m.To == 56 || m.To == 63) {
			rep.Inc("rook_home_captures")
		}
		if p := b.Sq[m.From]; (p == 'K' && (b.Castle[0] || b.Castle[1])) || (p == 'k' && (b.Castle[2] || b.Castle[3])) {
			rep.Inc("king_moves_with_rights")
		}
	}
	allMoves := func(p *position.Position, b *rc.Board, ctxBase map[string]interface{}) {
		for _, m := range b.Legal() {
			rep.Eval(1)
			rep.DistinctStr(b.RepKey() + m.UCI())
			feat(b, m)
			ctx := map[string]interface{}{"fen": b.FEN(), "move": m.UCI()}
			for k, v := range ctxBase {
				ctx[k] = v
			}
			p.DoMove(toEng(m))
			compareSuccessor(rep, p, b.Apply(m), moveClass(b, m), ctx)
			p.UndoMove()
		}
	}
	nPlay := c.Size(600, 120000)
	nSynth := c.Size(2500, 500000)
	sampled := 0
	forEachGame(c, "c02", nPlay, 100, nSynth, func(g Game) {
		p := engPos(g.Start.FEN())
		allMoves(p, g.Start, map[string]interface{}{"kind": g.Kind})
		for i, st := range g.Steps {
			p.DoMove(toEng(st.Move))
			if i%3 == 0 {
				allMoves(p, st.After, map[string]interface{}{"start": g.Start.FEN(), "moves": stepMoves(g.Steps, i+1)})
			}
		}
		if sampled < 2 && len(g.Steps) > 2 {
			sampled++
			rep.Sample(map[string]interface{}{"fen": g.Start.FEN(), "move": g.Steps[0].Move.UCI(), "successor": g.Steps[0].After.FEN()})
		}
		// the same start position described by other FEN texts the engine accepts (counters
		// omitted, move number 0, large counters): whatever position the engine reports right
		// after set-up, play from it has to follow the rules
		vr := SubRng(c.Seed, "c02/fenvariant", int(hashStr(g.Start.RepKey())%1000003))
		if vr.Chance(0.35) {
			f := strings.Fields(g.Start.FEN())
			texts := []string{
				strings.Join(f[:4], " "),
				strings.Join(f[:4], " ") + " 0 0",
				strings.Join(f[:4], " ") + " 7 0",
				strings.Join(f[:5], " "),
				strings.Join(f[:4], " ") + fmt.Sprintf(" %d %d", 60+vr.Intn(39), 200+vr.Intn(700)),
			}
			text := texts[vr.Intn(len(texts))]
			if strings.Fields(text)[3] != "-" && len(strings.Fields(text)) > 4 && strings.Fields(text)[4] != "0" {
				text = strings.Join(f[:4], " ") + " 0 0" // an ep square implies clock 0
			}
			vp, err := position.NewPositionFen(text)
			if err != nil || vp == nil {
				rep.Inc("fen_variant_rejected")
			} else if vb, perr := rc.ParseFEN(vp.StringFen()); perr == nil && vb.Validate() == nil {
				rep.Inc("fen_variant_games")
				for ply := 0; ply < 6; ply++ {
					ms := vb.Legal()
					if len(ms) == 0 {
						break
					}
					m := ms[vr.Intn(len(ms))]
					rep.Eval(1)
					ctx := map[string]interface{}{"fen_text": text, "position_reported_after_setup_or_last_move": vb.FEN(), "move": m.UCI(), "ply": ply + 1}
					nb := vb.Apply(m)
					vp.DoMove(toEng(m))
					compareSuccessor(rep, vp, nb, moveClass(vb, m)+":fen-variant", ctx)
					vb = nb
				}
			}
		}
	})
	// whole games compared ply by ply, up to the documented capacity
	nGames := c.Size(48, 16000)
	for i := 0; i < nGames; i++ {
		if !c.Mine(i) {
			continue
		}
		r := SubRng(c.Seed, "c02/game", i)
		start := rc.MustFEN(rc.StartFEN)
		if i%4 == 1 {
			// black to move start with a non-trivial move number and clock
			start = rc.MustFEN("rnbqkbnr/pppppppp/8/8/8/5N2/PPPPPPPP/RNBQKB1R b KQkq - 1 " + fmt.Sprint(1+r.Intn(60)))
			rep.Inc("black_start_games")
		}
		if i%4 == 2 {
			roots := corpusRoots()
			start = rc.MustFEN(roots[r.Intn(len(roots))])
		}
		maxLen := 120
		bias := defaultBias
		if i%2 == 0 {
			maxLen = 500
			bias = Bias{Capture: 0.15, Castle: 6, Promo: 3, Ep: 10, Double: 1, KingRook: 2, Shuffle: 3}
		}
		steps := playout(r, start, maxLen, bias)
		if len(steps) >= 400 {
			rep.Inc("long_games_400plus")
		}
		p := engPos(start.FEN())
		for j, st := range steps {
			rep.Eval(1)
			feat(st.Before, st.Move)
			p.DoMove(toEng(st.Move))
			compareSuccessor(rep, p, st.After, moveClass(st.Before, st.Move), map[string]interface{}{"start": start.FEN(), "ply": j + 1, "move": st.Move.UCI(), "moves": stepMoves(steps, j+1)})
		}
		rep.Count("game_plies", int64(len(steps)))
	}
}

// ---------------------------------------------------------------------------
// C03

func c03(c *Ctx) {
	rep := c.Rep
	mg := movegen.NewMoveGen()
	ev := evaluator.NewEvaluator()
	over24 := false // sticky per position object: unclamped phase sum exceeded 24 at some visited node
	nullChance := 0.3
	var exc func(p *position.Position, r *Rng, d int, lastNull bool, path []string, root string)
	exc = func(p *position.Position, r *Rng, d int, lastNull bool, path []string, root string) {
		// In a third of the nodes the "before" snapshot is taken from a copy of the position
		// object, so that nothing has been asked of the object itself (no cached answers)
		// when its moves are made and taken back.
		var pre Obs
		if r.Chance(0.33) {
			cp := *p
			pre = snapshot(&cp, ev, true)
			rep.Inc("nodes_before_snapshot_from_copy")
		} else {
			pre = snapshot(p, ev, true)
		}
		if phaseSum(p) > 24 {
			over24 = true
			rep.Inc("nodes_phase_sum_over_24")
		}
		if len(path) >= 6 {
			rep.Inc("depth_ge_6")
		}
		ml := mg.GeneratePseudoLegalMoves(p, movegen.GenAll, false)
		moves := make([]types.Move, len(*ml))
		copy(moves, *ml)
		// choose up to 3 moves, preferring special ones
		var special, normal []types.Move
		for _, m := range moves {
			if m.MoveType() != types.Normal || p.GetPiece(m.To()) != types.PieceNone {
				special = append(special, m)
			} else {
				normal = append(normal, m)
			}
		}
		var pick []types.Move
		for k := 0; k < 3; k++ {
			src := normal
			if len(special) > 0 && (len(normal) == 0 || r.Chance(0.6)) {
				src = special
			}
			if len(src) == 0 {
				break
			}
			pick = append(pick, src[r.Intn(len(src))])
			if d <= 0 || r.Chance(0.5) {
				if k >= 1 {
					break
				}
			}
		}
		doNull := func() {
			if lastNull || d <= 0 || pre.HasCheck || !r.Chance(nullChance) {
				return
			}
			p.DoNullMove()
			exc(p, r, d-1, true, append(path, "null"), root)
			p.UndoNullMove()
			post := snapshot(p, ev, true)
			rep.Eval(1)
			rep.Inc("null_undo_checked")
			for _, f := range diffFields(pre.Diff(post)) {
				rep.Viol("nullundo:"+firstField(f)+over24Tag(firstField(f), over24), fmt.Sprintf("after DoNullMove+UndoNullMove on %s: %s", pre.Fen, f),
					map[string]interface{}{"root": root, "path": append(append([]string{}, path...), "null"), "fen": pre.Fen, "diff": f})
			}
		}
		nullFirst := r.Chance(0.5) // the search tries the null move before the move loop
		if nullFirst {
			doNull()
		}
		for _, m := range pick {
			isCapture := p.GetPiece(m.To()) != types.PieceNone
			cls := moveClass(rc.MustFEN(pre.Fen), fromEng(m))
			p.DoMove(m)
			if phaseSum(p) > 24 {
				over24 = true
			}
			legal := p.WasLegalMove()
			if legal && d > 0 {
				exc(p, r, d-1, false, append(path, m.StringUci()), root)
			}
			p.UndoMove()
			post := snapshot(p, ev, true)
			rep.Eval(1)
			rep.Inc("undo_checked")
			rep.Distinct(pre.Key ^ uint64(m.MoveOf())<<1)
			if !legal {
				rep.Inc("undo_illegal_pseudo")
			}
			switch m.MoveType() {
			case types.Promotion:
				rep.Inc("undo_promotion")
				if isCapture {
					rep.Inc("undo_promotion_capture")
				}
			case types.EnPassant:
				rep.Inc("undo_enpassant")
			case types.Castling:
				rep.Inc("undo_castling")
			}
			for _, f := range diffFields(pre.Diff(post)) {
				rep.Viol("undo:"+firstField(f)+":"+cls+over24Tag(firstField(f), over24), fmt.Sprintf("after DoMove(%s)+UndoMove on %s (nesting %d): %s", m.StringUci(), pre.Fen, len(path), f),
					map[string]interface{}{"root": root, "path": append(append([]string{}, path...), m.StringUci()), "fen": pre.Fen, "diff": f})
			}
		}
		if !nullFirst {
			doNull()
		}
	}
	// excursions from positions whose history is close to / at the capacity of the
	// position's history (512 entries): the search of a long game lives there
	idxNC := 0
	nullChance = 0.6
	var ncLens []int
	for n := 470; n <= 530; n++ {
		ncLens = append(ncLens, n)
	}
	for rep2 := 0; rep2 < 6; rep2++ { // the plies just below the capacity, where search plies cross it
		for n := 500; n <= 512; n++ {
			ncLens = append(ncLens, n)
		}
	}
	for _, n := range ncLens {
		for variant := 0; variant < 2; variant++ {
			idxNC++
			if !c.Mine(idxNC) {
				continue
			}
			r := SubRng(c.Seed, "c03/nearcap", idxNC)
			start := rc.MustFEN(rc.StartFEN)
			if variant == 1 {
				start = rc.MustFEN("r3k2r/pppppppp/8/8/8/8/PPPPPPPP/R3K2R w KQkq - 0 1")
			}
			steps := playout(r, start, n, Bias{Capture: 0.02, Castle: 0.2, Promo: 1, Ep: 1, Double: 0.05, KingRook: 1, Shuffle: 6})
			if len(steps) < n {
				continue
			}
			p := engPos(start.FEN())
			over24 = false
			for _, st := range steps {
				p.DoMove(toEng(st.Move))
			}
			rep.Inc("near_capacity_roots")
			for k := 0; k < 7; k++ {
				exc(p, r, 3+r.Intn(8), false, nil, fmt.Sprintf("%s + %d plies of play", start.FEN(), n))
			}
		}
	}
	nullChance = 0.3
	nPlay := c.Size(160, 18000)
	nSynth := c.Size(700, 200000)
	gi := 0
	sampled := 0
	forEachGame(c, "c03", nPlay, 80, nSynth, func(g Game) {
		gi++
		r := SubRng(c.Seed, "c03/exc", gi*131+c.Shard)
		p := engPos(g.Start.FEN())
		over24 = false
		exc(p, r, 2+r.Intn(7), false, nil, g.Start.FEN())
		for i, st := range g.Steps {
			p.DoMove(toEng(st.Move))
			if phaseSum(p) > 24 {
				over24 = true
			}
			if i%7 == 6 || st.Move.Kind != rc.Normal {
				exc(p, r, 2+r.Intn(7), false, nil, g.Start.FEN()+" moves "+strings.Join(stepMoves(g.Steps, i+1), " "))
			}
		}
		if sampled < 2 {
			sampled++
			rep.Sample(map[string]interface{}{"root": g.Start.FEN(), "excursion": "random DFS depth<=8 with null moves, every undo compared"})
		}
	})
}

// ---------------------------------------------------------------------------
// C04

type keyDict struct {
	rep     *Rep
	byCanon map[string]uint64
	byKey   map[uint64]string
}

func canonOf(fen string) string {
	f := strings.Fields(fen)
	return strings.Join(f[:4], " ")
}

func (d *keyDict) add(p *position.Position, how string) {
	canon := canonOf(p.StringFen())
	key := uint64(p.ZobristKey())
	d.rep.DistinctStr(canon)
	if k, ok := d.byCanon[canon]; ok {
		if k != key {
			d.rep.Viol("key:same-position-different-key:"+how, fmt.Sprintf("position %q has key %d (%s) but %d elsewhere", canon, key, how, k),
				map[string]interface{}{"canon": canon, "how": how, "key": key, "other_key": k})
		}
	} else {
		d.byCanon[canon] = key
		d.rep.Inc("dict_entries")
	}
	if cn, ok := d.byKey[key]; ok {
		if cn != canon {
			d.rep.Viol("key:different-positions-same-key:"+fenFieldDiff(cn+" 0 1", canon+" 0 1"), fmt.Sprintf("positions %q and %q share key %d", cn, canon, key),
				map[string]interface{}{"a": cn, "b": canon, "key": key, "how": how})
		}
	} else {
		d.byKey[key] = canon
	}
}

func c04(c *Ctx) {
	rep := c.Rep
	dict := &keyDict{rep: rep, byCanon: map[string]uint64{}, byKey: map[uint64]string{}}
	over24 := false // sticky per game: unclamped phase sum exceeded 24 at some position of the game
	checkSums := func(p *position.Position, ctx map[string]interface{}) {
		var mat, np, pm, pe [2]int
		gp := 0
		for sq := types.SqA1; sq <= types.SqH8; sq++ {
			pc := p.GetPiece(sq)
			if pc == types.PieceNone {
				continue
			}
			col := pc.ColorOf()
			pt := pc.TypeOf()
			mat[col] += int(pt.ValueOf())
			if pt != types.King && pt != types.Pawn {
				np[col] += int(pt.ValueOf())
			}
			pm[col] += int(types.PosMidValue(pc, sq))
			pe[col] += int(types.PosEndValue(pc, sq))
			gp += pt.GamePhaseValue()
		}
		if gp > 24 {
			gp = 24
		}
		for col := types.White; col <= types.Black; col++ {
			if int(p.Material(col)) != mat[col] {
				rep.Viol("sums:Material", fmt.Sprintf("Material(%v)=%d, sum over board=%d in %s", col, p.Material(col), mat[col], p.StringFen()), ctx)
			}
			if int(p.MaterialNonPawn(col)) != np[col] {
				rep.Viol("sums:MaterialNonPawn", fmt.Sprintf("MaterialNonPawn(%v)=%d, sum=%d in %s", col, p.MaterialNonPawn(col), np[col], p.StringFen()), ctx)
			}
			if int(p.PsqMidValue(col)) != pm[col] {
				rep.Viol("sums:PsqMidValue", fmt.Sprintf("PsqMidValue(%v)=%d, sum=%d in %s", col, p.PsqMidValue(col), pm[col], p.StringFen()), ctx)
			}
			if int(p.PsqEndValue(col)) != pe[col] {
				rep.Viol("sums:PsqEndValue", fmt.Sprintf("PsqEndValue(%v)=%d, sum=%d in %s", col, p.PsqEndValue(col), pe[col], p.StringFen()), ctx)
			}
		}
		if p.GamePhase() != gp {
			rep.Viol("sums:GamePhase"+over24Tag("GamePhase", over24), fmt.Sprintf("GamePhase()=%d, min(24, sum of phase values)=%d in %s", p.GamePhase(), gp, p.StringFen()), ctx)
		}
	}
	checkFresh := func(p *position.Position, how string, ctx map[string]interface{}) {
		rep.Eval(1)
		if phaseSum(p) > 24 {
			over24 = true
			rep.Inc("positions_phase_sum_over_24")
		}
		fen := p.StringFen()
		fresh, err := position.NewPositionFen(fen)
		if err != nil || fresh == nil {
			rep.Viol("fresh:own-fen-rejected", "NewPositionFen rejects the engine's own FEN "+fen, ctx)
			return
		}
		a, b := snapshot(p, nil, false), snapshot(fresh, nil, false)
		for _, f := range diffFields(a.Diff(b)) {
			rep.Viol("incremental:"+firstField(f)+over24Tag(firstField(f), over24), fmt.Sprintf("position reached by play (last move class %s) differs from NewPositionFen(%q): %s", how, fen, f), ctx)
		}
		checkSums(p, ctx)
		dict.add(p, "play")
		dict.add(fresh, "fen")
		if fresh.GetEnPassantSquare() != types.SqNone {
			rep.Inc("fen_with_ep")
		}
	}
	// very long games with a look-ahead after every move (as a search does on the game
	// position): move sequences include moves taken back, and the position's history buffer
	// (512 entries) wraps several times
	longGames := []struct {
		fen string
		cyc []string
	}{
		{rc.StartFEN, []string{"g1f3", "g8f6", "f3g1", "f6g8"}},
		{rc.StartFEN, []string{"b1c3", "b8c6", "c3b1", "c6b8", "g1h3", "g8h6", "h3g1", "h6g8"}},
		{"r3k2r/pppppppp/8/8/8/8/PPPPPPPP/R3K2R w KQkq - 0 1", []string{"a1b1", "a8b8", "b1a1", "b8a8"}},
		{"4k3/8/8/8/8/8/8/R3K2R w KQ - 3 40", []string{"h1h2", "e8d8", "h2h1", "d8e8"}},
	}
	for gi, lg := range longGames {
		if !c.Mine(gi) {
			continue
		}
		over24 = false
		p := engPos(lg.fen)
		lmg := movegen.NewMoveGen()
		lr := SubRng(c.Seed, "c04/long", gi)
		n := c.Size(1100, 3000)
		for ply := 0; ply < n; ply++ {
			m := lmg.GetMoveFromUci(p, lg.cyc[ply%len(lg.cyc)])
			if m == types.MoveNone {
				rep.Inconclusive("long game generator: move not accepted at ply " + fmt.Sprint(ply))
				break
			}
			p.DoMove(m)
			near := ply%255 > 235 || ply%255 < 20 || ply%256 > 236 || ply%256 < 20
			if near || lr.Chance(0.1) {
				// look-ahead: one or two plies down and back
				ml := lmg.GenerateLegalMoves(p, movegen.GenAll)
				if ml.Len() > 0 {
					m1 := ml.At(lr.Intn(ml.Len()))
					p.DoMove(m1)
					ml2 := lmg.GenerateLegalMoves(p, movegen.GenAll)
					if ml2.Len() > 0 && lr.Chance(0.8) {
						p.DoMove(ml2.At(lr.Intn(ml2.Len())))
						p.UndoMove()
					}
					p.UndoMove()
				}
				rep.Inc("long_game_lookaheads")
				checkFresh(p, "long-game-lookahead", map[string]interface{}{"start": lg.fen, "cycle": lg.cyc, "ply": ply + 1})
			}
		}
		rep.Inc("long_games")
	}
	nPlay := c.Size(700, 75000)
	nSynth := c.Size(2500, 600000)
	sampled := 0
	nr := SubRng(c.Seed, "c04/null", c.Shard)
	forEachGame(c, "c04", nPlay, 110, nSynth, func(g Game) {
		p := engPos(g.Start.FEN())
		over24 = false
		checkFresh(p, "start", map[string]interface{}{"start": g.Start.FEN()})
		for i, st := range g.Steps {
			officers := 0
			for _, pc := range st.Before.Sq {
				switch pc {
				case 'N', 'B', 'n', 'b':
					officers++
				case 'R', 'r':
					officers += 2
				case 'Q', 'q':
					officers += 4
				}
			}
			if st.Move.Kind == rc.Promotion && officers >= 24 {
				rep.Inc("promotion_plies_full_officers")
			}
			p.DoMove(toEng(st.Move))
			rep.Inc("played_positions")
			checkFresh(p, moveClass(st.Before, st.Move), map[string]interface{}{"start": g.Start.FEN(), "moves": stepMoves(g.Steps, i+1)})
			// the search also passes the move ("null move") and plays on from there: those are
			// positions too, reached by one more kind of step
			if nr.Chance(0.25) && !st.After.InCheck(st.After.White) {
				p.DoNullMove()
				rep.Inc("null_move_positions")
				if st.After.Ep >= 0 {
					rep.Inc("null_move_with_pending_ep")
				}
				nctx := map[string]interface{}{"start": g.Start.FEN(), "moves": stepMoves(g.Steps, i+1), "then": "null move"}
				checkFresh(p, "after-null-move", nctx)
				if nb, err := rc.ParseFEN(p.StringFen()); err == nil && nb.Validate() == nil {
					if ms := nb.Legal(); len(ms) > 0 {
						m := ms[nr.Intn(len(ms))]
						p.DoMove(toEng(m))
						nctx["then"] = "null move, " + m.UCI()
						checkFresh(p, "after-null-move+move", nctx)
						p.UndoMove()
					}
				}
				p.UndoNullMove()
			}
		}
		if sampled < 2 && len(g.Steps) > 0 {
			sampled++
			rep.Sample(map[string]interface{}{"start": g.Start.FEN(), "moves": stepMoves(g.Steps, 6), "checked": "incremental vs fresh vs sums; key dictionary"})
		}
		// transpositions: two commuting quiet moves by the same side around one reply
		b0 := g.Start
		if len(g.Steps) > 0 {
			b0 = g.Steps[len(g.Steps)-1].After
		}
		r := SubRng(c.Seed, "c04/tr", int(hashStr(b0.RepKey())%1000003))
		ms := b0.Legal()
		for try := 0; try < 6 && len(ms) > 1; try++ {
			m1 := ms[r.Intn(len(ms))]
			b1 := b0.Apply(m1)
			rs := b1.Legal()
			if len(rs) == 0 {
				continue
			}
			rm := rs[r.Intn(len(rs))]
			b2 := b1.Apply(rm)
			ms2 := b2.Legal()
			if len(ms2) == 0 {
				continue
			}
			m2 := ms2[r.Intn(len(ms2))]
			// other order: m2, rm, m1 must all be legal and give the same identity
			okOrder := func() *rc.Board {
				x := b0
				for _, m := range []rc.Move{m2, rm, m1} {
					found := false
					for _, l := range x.Legal() {
						if l == m {
							found = true
						}
					}
					if !found {
						return nil
					}
					x = x.Apply(m)
				}
				return x
			}()
			endA := b2.Apply(m2)
			if okOrder == nil || okOrder.RepKey() != endA.RepKey() {
				continue
			}
			pa, pb := engPos(b0.FEN()), engPos(b0.FEN())
			for _, m := range []rc.Move{m1, rm, m2} {
				pa.DoMove(toEng(m))
			}
			for _, m := range []rc.Move{m2, rm, m1} {
				pb.DoMove(toEng(m))
			}
			rep.Inc("transposition_pairs")
			rep.Eval(1)
			if pa.ZobristKey() != pb.ZobristKey() {
				rep.Viol("key:transposition", fmt.Sprintf("same position %q via two move orders has keys %d and %d", endA.RepKey(), pa.ZobristKey(), pb.ZobristKey()),
					map[string]interface{}{"from": b0.FEN(), "order_a": []string{m1.UCI(), rm.UCI(), m2.UCI()}, "order_b": []string{m2.UCI(), rm.UCI(), m1.UCI()}})
			}
			dict.add(pa, "transposition")
			dict.add(pb, "transposition")
		}
		// neighbours: positions differing in exactly one identity component
		base := b0
		neighbours := []*rc.Board{}
		for i := 0; i < 4; i++ {
			if base.Castle[i] {
				n := *base
				n.Castle[i] = false
				neighbours = append(neighbours, &n)
			}
		}
		if base.Ep >= 0 {
			n := *base
			n.Ep = -1
			neighbours = append(neighbours, &n)
		} else {
			// add an ep square where consistent
			for f := 0; f < 8; f++ {
				n := *base
				if base.White && base.Sq[rc.Sq(f, 4)] == 'p' && base.Sq[rc.Sq(f, 5)] == 0 && base.Sq[rc.Sq(f, 6)] == 0 {
					n.Ep = rc.Sq(f, 5)
					neighbours = append(neighbours, &n)
				} else if !base.White && base.Sq[rc.Sq(f, 3)] == 'P' && base.Sq[rc.Sq(f, 2)] == 0 && base.Sq[rc.Sq(f, 1)] == 0 {
					n.Ep = rc.Sq(f, 2)
					neighbours = append(neighbours, &n)
				}
			}
		}
		{
			n := *base
			n.White = !n.White
			n.Ep = -1
			if !n.InCheck(!n.White) {
				neighbours = append(neighbours, &n)
			}
		}
		// different clocks / move numbers must NOT change the key
		{
			n := *base
			n.Half, n.Full = base.Half+7, base.Full+13
			pn := engPos(n.FEN())
			pbse := engPos(base.FEN())
			rep.Eval(1)
			if pn.ZobristKey() != pbse.ZobristKey() {
				rep.Viol("key:depends-on-clocks", "key differs for FENs that differ only in clock/move number: "+base.FEN(), map[string]interface{}{"a": base.FEN(), "b": n.FEN()})
			}
		}
		pbase := engPos(base.FEN())
		dict.add(pbase, "fen")
		for _, n := range neighbours {
			pn := engPos(n.FEN())
			rep.Inc("neighbour_pairs")
			rep.Eval(1)
			if pn.ZobristKey() == pbase.ZobristKey() {
				rep.Viol("key:neighbour-collision:"+fenFieldDiff(n.FEN(), base.FEN()), fmt.Sprintf("positions %q and %q differ but share key %d", n.RepKey(), base.RepKey(), pn.ZobristKey()),
					map[string]interface{}{"a": base.FEN(), "b": n.FEN()})
			}
			dict.add(pn, "fen")
		}
	})
}
