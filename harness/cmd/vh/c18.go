package main

import (
	"fmt"
	"math/bits"

	"github.com/frankkopp/FrankyGo/internal/types"
	rc "github.com/frankkopp/FrankyGo/verifh/refchess"
)

func init() {
	register(&CheckSpec{
		ID: "C18", Fn: c18,
		Rule:        "finite domain enumerated: rook and bishop GetAttacksBb for each of 64 squares x EVERY subset of the squares on that piece's lines (each OR-ed with seeded noise elsewhere), queen = rook|bishop on sampled occupancies, knight/king/pawn attack sets, pseudo attacks, 8 rays, Intermediate for all 4096 pairs, file/rank/neighbour/passed-pawn masks, square/centre distances, castling rights by square, Square.To in 8 directions, ShiftBitboard in 8 directions on all single bits, all edge pairs and random boards; oracle = ray walking on (file,rank) coordinates; distinct = distinct (table, arguments) lookups",
		Assumptions: []string{"geometric definitions as documented in bitboard.go comments (files west = all files with smaller index, passed-pawn mask = squares ahead on own and adjacent files, centre distance = Chebyshev distance to the nearest of d4,e4,d5,e5)"},
		Required:    []string{"rook_lookups", "bishop_lookups", "queen_lookups", "intermediate_pairs", "shift_checks", "mask_checks"},
		MinEvals:    100000,
		Level:       "exploration",
	})
}

func walk(sq int, dirs [][2]int, occ uint64, slide bool) uint64 {
	var res uint64
	f0, r0 := rc.File(sq), rc.Rank(sq)
	for _, d := range dirs {
		f, r := f0+d[0], r0+d[1]
		for f >= 0 && f < 8 && r >= 0 && r < 8 {
			s := uint(r*8 + f)
			res |= 1 << s
			if !slide || occ&(1<<s) != 0 {
				break
			}
			f, r = f+d[0], r+d[1]
		}
	}
	return res
}

var dRook = [][2]int{{1, 0}, {0, 1}, {-1, 0}, {0, -1}}
var dBishop = [][2]int{{1, 1}, {-1, 1}, {-1, -1}, {1, -1}}
var dKnight = [][2]int{{1, 2}, {2, 1}, {2, -1}, {1, -2}, {-1, -2}, {-2, -1}, {-2, 1}, {-1, 2}}
var dKing = [][2]int{{1, 0}, {1, 1}, {0, 1}, {-1, 1}, {-1, 0}, {-1, -1}, {0, -1}, {1, -1}}

func bbStr(b uint64) string { return fmt.Sprintf("%016x", b) }

func c18(c *Ctx) {
	rep := c.Rep
	viol := func(key, msg string, payload map[string]interface{}) { rep.Viol(key, msg, payload) }
	r := SubRng(c.Seed, "c18", c.Shard)

	for sq := 0; sq < 64; sq++ {
		if !c.Mine(sq) {
			continue
		}
		esq := types.Square(sq)
		// --- sliders, exhaustive over line subsets
		for _, pc := range []struct {
			pt   types.PieceType
			dirs [][2]int
			name string
		}{{types.Rook, dRook, "rook"}, {types.Bishop, dBishop, "bishop"}} {
			line := walk(sq, pc.dirs, 0, true)
			var lineSq []uint
			for b := line; b != 0; b &= b - 1 {
				lineSq = append(lineSq, uint(bits.TrailingZeros64(b)))
			}
			n := len(lineSq)
			for sub := 0; sub < 1<<uint(n); sub++ {
				var occ uint64
				for i := 0; i < n; i++ {
					if sub&(1<<uint(i)) != 0 {
						occ |= 1 << lineSq[i]
					}
				}
				noise := r.U64() & r.U64() &^ line
				if sub%3 == 0 {
					noise |= 1 << uint(sq) // the slider's own square may be set in the occupancy
				}
				want := walk(sq, pc.dirs, occ, true)
				got := uint64(types.GetAttacksBb(pc.pt, esq, types.Bitboard(occ|noise)))
				rep.Eval(1)
				rep.Inc(pc.name + "_lookups")
				rep.Distinct((occ|noise)*0x9E3779B97F4A7C15 ^ uint64(sq)<<3 ^ uint64(pc.pt))
				if got != want {
					viol("slider:"+pc.name, fmt.Sprintf("GetAttacksBb(%s, %s, occ=%s) = %s, ray walk gives %s", pc.name, rc.SqName(sq), bbStr(occ|noise), bbStr(got), bbStr(want)),
						map[string]interface{}{"piece": pc.name, "square": rc.SqName(sq), "occupied": bbStr(occ | noise)})
				}
			}
			rep.Distinct(uint64(sq)<<8 | uint64(pc.pt))
			// empty-board pseudo attacks
			rep.Eval(1)
			if got := uint64(types.GetPseudoAttacks(pc.pt, esq)); got != line {
				viol("pseudo:"+pc.name, fmt.Sprintf("GetPseudoAttacks(%s, %s)=%s want %s", pc.name, rc.SqName(sq), bbStr(got), bbStr(line)), nil)
			}
		}
		// --- queen on sampled occupancies
		nq := c.Size(20000, 4000000)
		for i := 0; i < nq; i++ {
			occ := r.U64()
			switch i % 4 {
			case 1:
				occ &= r.U64()
			case 2:
				occ &= r.U64() & r.U64()
			case 3:
				occ |= r.U64()
			}
			want := walk(sq, dRook, occ, true) | walk(sq, dBishop, occ, true)
			rep.Eval(1)
			rep.Inc("queen_lookups")
			rep.Distinct(occ*0x9E3779B97F4A7C15 ^ uint64(sq)<<3 ^ 6)
			if got := uint64(types.GetAttacksBb(types.Queen, esq, types.Bitboard(occ))); got != want {
				viol("slider:queen", fmt.Sprintf("GetAttacksBb(queen, %s, occ=%s) = %s, ray walk gives %s", rc.SqName(sq), bbStr(occ), bbStr(got), bbStr(want)), nil)
			}
		}
		qline := walk(sq, dRook, 0, true) | walk(sq, dBishop, 0, true)
		if got := uint64(types.GetPseudoAttacks(types.Queen, esq)); got != qline {
			viol("pseudo:queen", fmt.Sprintf("GetPseudoAttacks(queen,%s)=%s want %s", rc.SqName(sq), bbStr(got), bbStr(qline)), nil)
		}
		// --- knight, king, pawns
		kn := walk(sq, dKnight, 0, false)
		kg := walk(sq, dKing, 0, false)
		for _, occ := range []uint64{0, r.U64(), ^uint64(0)} {
			rep.Eval(2)
			if got := uint64(types.GetAttacksBb(types.Knight, esq, types.Bitboard(occ))); got != kn {
				viol("attacks:knight", fmt.Sprintf("knight attacks from %s = %s want %s", rc.SqName(sq), bbStr(got), bbStr(kn)), nil)
			}
			if got := uint64(types.GetAttacksBb(types.King, esq, types.Bitboard(occ))); got != kg {
				viol("attacks:king", fmt.Sprintf("king attacks from %s = %s want %s", rc.SqName(sq), bbStr(got), bbStr(kg)), nil)
			}
		}
		if got := uint64(types.GetPseudoAttacks(types.Knight, esq)); got != kn {
			viol("pseudo:knight", "GetPseudoAttacks(knight) wrong on "+rc.SqName(sq), nil)
		}
		if got := uint64(types.GetPseudoAttacks(types.King, esq)); got != kg {
			viol("pseudo:king", "GetPseudoAttacks(king) wrong on "+rc.SqName(sq), nil)
		}
		wp := walk(sq, [][2]int{{-1, 1}, {1, 1}}, 0, false)
		bp := walk(sq, [][2]int{{-1, -1}, {1, -1}}, 0, false)
		rep.Eval(2)
		if got := uint64(types.GetPawnAttacks(types.White, esq)); got != wp {
			viol("attacks:pawn:white", fmt.Sprintf("white pawn attacks from %s = %s want %s", rc.SqName(sq), bbStr(got), bbStr(wp)), nil)
		}
		if got := uint64(types.GetPawnAttacks(types.Black, esq)); got != bp {
			viol("attacks:pawn:black", fmt.Sprintf("black pawn attacks from %s = %s want %s", rc.SqName(sq), bbStr(got), bbStr(bp)), nil)
		}
		// --- rays
		oris := []struct {
			o types.Orientation
			d [2]int
			n string
		}{{types.NW, [2]int{-1, 1}, "NW"}, {types.N, [2]int{0, 1}, "N"}, {types.NE, [2]int{1, 1}, "NE"}, {types.E, [2]int{1, 0}, "E"},
			{types.SE, [2]int{1, -1}, "SE"}, {types.S, [2]int{0, -1}, "S"}, {types.SW, [2]int{-1, -1}, "SW"}, {types.W, [2]int{-1, 0}, "W"}}
		for _, o := range oris {
			want := walk(sq, [][2]int{o.d}, 0, true)
			rep.Eval(1)
			rep.Inc("mask_checks")
			if got := uint64(esq.Ray(o.o)); got != want {
				viol("ray:"+o.n, fmt.Sprintf("Ray(%s) from %s = %s want %s", o.n, rc.SqName(sq), bbStr(got), bbStr(want)), nil)
			}
		}
		// --- Square.To
		dirs := []struct {
			d  types.Direction
			dd [2]int
			n  string
		}{{types.North, [2]int{0, 1}, "N"}, {types.East, [2]int{1, 0}, "E"}, {types.South, [2]int{0, -1}, "S"}, {types.West, [2]int{-1, 0}, "W"},
			{types.Northeast, [2]int{1, 1}, "NE"}, {types.Southeast, [2]int{1, -1}, "SE"}, {types.Southwest, [2]int{-1, -1}, "SW"}, {types.Northwest, [2]int{-1, 1}, "NW"}}
		for _, d := range dirs {
			f, rr := rc.File(sq)+d.dd[0], rc.Rank(sq)+d.dd[1]
			want := 64
			if f >= 0 && f < 8 && rr >= 0 && rr < 8 {
				want = rr*8 + f
			}
			rep.Eval(1)
			if got := int(esq.To(d.d)); got != want {
				viol("square-to:"+d.n, fmt.Sprintf("%s.To(%s) = %d want %d", rc.SqName(sq), d.n, got, want), nil)
			}
		}
		// --- masks
		var fw, fe, f1w, f1e, rn, rs, ppW, ppB uint64
		for s := 0; s < 64; s++ {
			df, dr := rc.File(s)-rc.File(sq), rc.Rank(s)-rc.Rank(sq)
			bit := uint64(1) << uint(s)
			if df < 0 {
				fw |= bit
			}
			if df > 0 {
				fe |= bit
			}
			if df == -1 {
				f1w |= bit
			}
			if df == 1 {
				f1e |= bit
			}
			if dr > 0 {
				rn |= bit
			}
			if dr < 0 {
				rs |= bit
			}
			if df >= -1 && df <= 1 && dr > 0 {
				ppW |= bit
			}
			if df >= -1 && df <= 1 && dr < 0 {
				ppB |= bit
			}
		}
		chk := func(name string, got types.Bitboard, want uint64) {
			rep.Eval(1)
			rep.Inc("mask_checks")
			if uint64(got) != want {
				viol("mask:"+name, fmt.Sprintf("%s(%s) = %s want %s", name, rc.SqName(sq), bbStr(uint64(got)), bbStr(want)), nil)
			}
		}
		chk("FilesWestMask", esq.FilesWestMask(), fw)
		chk("FilesEastMask", esq.FilesEastMask(), fe)
		chk("FileWestMask", esq.FileWestMask(), f1w)
		chk("FileEastMask", esq.FileEastMask(), f1e)
		chk("RanksNorthMask", esq.RanksNorthMask(), rn)
		chk("RanksSouthMask", esq.RanksSouthMask(), rs)
		chk("NeighbourFilesMask", esq.NeighbourFilesMask(), f1w|f1e)
		chk("PassedPawnMask:white", esq.PassedPawnMask(types.White), ppW)
		chk("PassedPawnMask:black", esq.PassedPawnMask(types.Black), ppB)
		chk("Square.Bb", esq.Bb(), uint64(1)<<uint(sq))
		chk("File.Bb", esq.FileOf().Bb(), 0x0101010101010101<<uint(rc.File(sq)))
		chk("Rank.Bb", esq.RankOf().Bb(), 0xff<<uint(8*rc.Rank(sq)))
		if int(esq.FileOf()) != rc.File(sq) || int(esq.RankOf()) != rc.Rank(sq) || types.SquareOf(esq.FileOf(), esq.RankOf()) != esq {
			viol("square:file-rank", "FileOf/RankOf/SquareOf inconsistent for "+rc.SqName(sq), nil)
		}
		if esq.String() != rc.SqName(sq) || types.MakeSquare(rc.SqName(sq)) != esq {
			viol("square:name", "String/MakeSquare inconsistent for "+rc.SqName(sq), nil)
		}
		// --- centre distance
		cd := 99
		for _, cs := range []int{27, 28, 35, 36} {
			d := abs(rc.File(cs) - rc.File(sq))
			if x := abs(rc.Rank(cs) - rc.Rank(sq)); x > d {
				d = x
			}
			if d < cd {
				cd = d
			}
		}
		rep.Eval(1)
		if got := esq.CenterDistance(); got != cd {
			viol("distance:centre", fmt.Sprintf("CenterDistance(%s)=%d want %d", rc.SqName(sq), got, cd), nil)
		}
		// --- castling rights by square
		wantCr := map[int]types.CastlingRights{4: types.CastlingWhite, 0: types.CastlingWhiteOOO, 7: types.CastlingWhiteOO, 60: types.CastlingBlack, 56: types.CastlingBlackOOO, 63: types.CastlingBlackOO}[sq]
		rep.Eval(1)
		if got := types.GetCastlingRights(esq); got != wantCr {
			viol("castling-rights-by-square", fmt.Sprintf("GetCastlingRights(%s)=%v want %v", rc.SqName(sq), got, wantCr), nil)
		}
		// --- pairs: intermediate and distance
		for s2 := 0; s2 < 64; s2++ {
			df, dr := rc.File(s2)-rc.File(sq), rc.Rank(s2)-rc.Rank(sq)
			var want uint64
			if s2 != sq && (df == 0 || dr == 0 || abs(df) == abs(dr)) {
				sf, sr := sign(df), sign(dr)
				f, rr := rc.File(sq)+sf, rc.Rank(sq)+sr
				for f != rc.File(s2) || rr != rc.Rank(s2) {
					want |= 1 << uint(rr*8+f)
					f, rr = f+sf, rr+sr
				}
			}
			rep.Eval(2)
			rep.Inc("intermediate_pairs")
			rep.Distinct(0xAA0000 | uint64(sq)<<8 | uint64(s2))
			if got := uint64(types.Intermediate(esq, types.Square(s2))); got != want {
				viol("intermediate", fmt.Sprintf("Intermediate(%s,%s)=%s want %s", rc.SqName(sq), rc.SqName(s2), bbStr(got), bbStr(want)), nil)
			}
			if got := uint64(esq.Intermediate(types.Square(s2))); got != want {
				viol("intermediate:method", fmt.Sprintf("%s.Intermediate(%s)=%s want %s", rc.SqName(sq), rc.SqName(s2), bbStr(got), bbStr(want)), nil)
			}
			wd := abs(df)
			if abs(dr) > wd {
				wd = abs(dr)
			}
			if got := types.SquareDistance(esq, types.Square(s2)); got != wd {
				viol("distance:square", fmt.Sprintf("SquareDistance(%s,%s)=%d want %d", rc.SqName(sq), rc.SqName(s2), got, wd), nil)
			}
		}
	}
	// --- squares of a colour
	if c.Shard == 0 {
		var light, dark uint64
		for s := 0; s < 64; s++ {
			if (rc.File(s)+rc.Rank(s))%2 == 1 {
				light |= 1 << uint(s)
			} else {
				dark |= 1 << uint(s)
			}
		}
		if uint64(types.SquaresBb(types.White)) != light || uint64(types.SquaresBb(types.Black)) != dark {
			viol("mask:SquaresBb", "SquaresBb light/dark wrong", nil)
		}
	}
	// --- shifts: no wrap in any direction
	shiftRef := func(b uint64, d [2]int) uint64 {
		var res uint64
		for x := b; x != 0; x &= x - 1 {
			s := bits.TrailingZeros64(x)
			f, rr := rc.File(s)+d[0], rc.Rank(s)+d[1]
			if f >= 0 && f < 8 && rr >= 0 && rr < 8 {
				res |= 1 << uint(rr*8+f)
			}
		}
		return res
	}
	sdirs := []struct {
		d  types.Direction
		dd [2]int
		n  string
	}{{types.North, [2]int{0, 1}, "N"}, {types.East, [2]int{1, 0}, "E"}, {types.South, [2]int{0, -1}, "S"}, {types.West, [2]int{-1, 0}, "W"},
		{types.Northeast, [2]int{1, 1}, "NE"}, {types.Southeast, [2]int{1, -1}, "SE"}, {types.Southwest, [2]int{-1, -1}, "SW"}, {types.Northwest, [2]int{-1, 1}, "NW"}}
	var boards []uint64
	for s := 0; s < 64; s++ {
		boards = append(boards, 1<<uint(s))
	}
	edge := uint64(0xff818181818181ff)
	var edges []uint
	for x := edge; x != 0; x &= x - 1 {
		edges = append(edges, uint(bits.TrailingZeros64(x)))
	}
	for i, a := range edges {
		for _, b := range edges[i+1:] {
			boards = append(boards, 1<<a|1<<b)
		}
	}
	boards = append(boards, 0, ^uint64(0), 0x0101010101010101, 0x8080808080808080, 0xff, 0xff00000000000000)
	nr := c.Size(60000, 16000000) / c.NShards
	for i := 0; i < nr; i++ {
		x := r.U64()
		if i%3 == 1 {
			x &= r.U64()
		}
		boards = append(boards, x)
	}
	for bi, b := range boards {
		if bi < 64+len(edges)*(len(edges)-1)/2+6 && !c.Mine(bi) {
			continue
		}
		for _, d := range sdirs {
			want := shiftRef(b, d.dd)
			rep.Eval(1)
			rep.Inc("shift_checks")
			rep.Distinct(b*0xD6E8FEB86659FD93 ^ uint64(d.d+20))
			if got := uint64(types.ShiftBitboard(types.Bitboard(b), d.d)); got != want {
				viol("shift:"+d.n, fmt.Sprintf("ShiftBitboard(%s, %s) = %s want %s", bbStr(b), d.n, bbStr(got), bbStr(want)), map[string]interface{}{"board": bbStr(b), "dir": d.n})
			}
		}
	}
	rep.Sample(map[string]interface{}{"lookup": "GetAttacksBb(rook, e4, every subset of the 14 squares on e-file/4th rank | noise)", "oracle": "ray walk"})
}

func sign(x int) int {
	if x > 0 {
		return 1
	}
	if x < 0 {
		return -1
	}
	return 0
}
