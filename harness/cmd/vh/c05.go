package main

import (
	"fmt"
	"strings"
	"time"

	"github.com/frankkopp/FrankyGo/internal/config"
	"github.com/frankkopp/FrankyGo/internal/position"
	"github.com/frankkopp/FrankyGo/internal/search"
	"github.com/frankkopp/FrankyGo/internal/types"
	rc "github.com/frankkopp/FrankyGo/verifh/refchess"
)

func init() {
	register(&CheckSpec{
		ID: "C05", Fn: c05, Race: false,
		Rule:        "one evaluation = one search observed through our own UciDriver (exactly what a GUI is sent) and LastSearchResult: best move legal in the root (refchess), ponder move legal after it, every iteration PV and the final PV a playable legal sequence starting with the best move, caller's position unchanged, search returns; workload = positions incl. in-check / single-move / long-history / repetition-loaded / 50-move-edge roots x limit modes (depth, nodes, movetime, clock, infinite+stop, ponder+stop, ponder+ponderhit) x random subsets of all search switches x stop moments (node limit swept 1..N, asynchronous StopSearch after seeded delays) x warm tables (chains of searches on one Search without NewGame, 1 MB hash); distinct = distinct (root identity, limit, configuration mask, chain position)",
		Assumptions: []string{"refchess legality", "non-termination is judged by the per-shard watchdog and goroutine dump, see DESIGN 1.2"},
		Required:    []string{"searches", "mode_depth", "mode_nodes", "mode_movetime", "mode_clock", "mode_infinite_stop", "mode_ponder_stop", "mode_ponder_hit", "pv_lines_validated", "pv_len_ge_3", "ponder_moves_validated", "warm_table_searches", "stopped_mid_iteration", "tt_cut_searches", "roots_in_check", "roots_single_move", "roots_with_history", "node_sweep_searches", "roots_drawn_by_history", "roots_fifty_move_edge", "roots_heavy", "roots_contested_square", "roots_castling_refused", "earlier_results_rechecked", "roots_more_than_64_moves"},
		MinEvals:    1000,
		TimeoutQ:    20 * 60e9,
		TimeoutT:    120 * 60e9,
	})
}

type searchCfgMask uint32

var cfgBits = []struct {
	name string
	set  func(v bool)
}{
	{"Quiescence", func(v bool) { config.Settings.Search.UseQuiescence = v }},
	{"QSStandpat", func(v bool) { config.Settings.Search.UseQSStandpat = v }},
	{"SEE", func(v bool) { config.Settings.Search.UseSEE = v }},
	{"PromNonQuiet", func(v bool) { config.Settings.Search.UsePromNonQuiet = v }},
	{"PVS", func(v bool) { config.Settings.Search.UsePVS = v }},
	{"IID", func(v bool) { config.Settings.Search.UseIID = v }},
	{"Killer", func(v bool) { config.Settings.Search.UseKiller = v }},
	{"HistoryCounter", func(v bool) { config.Settings.Search.UseHistoryCounter = v }},
	{"CounterMoves", func(v bool) { config.Settings.Search.UseCounterMoves = v }},
	{"TT", func(v bool) { config.Settings.Search.UseTT = v }},
	{"TTMove", func(v bool) { config.Settings.Search.UseTTMove = v }},
	{"TTValue", func(v bool) { config.Settings.Search.UseTTValue = v }},
	{"QSTT", func(v bool) { config.Settings.Search.UseQSTT = v }},
	{"EvalTT", func(v bool) { config.Settings.Search.UseEvalTT = v }},
	{"MDP", func(v bool) { config.Settings.Search.UseMDP = v }},
	{"Razoring", func(v bool) { config.Settings.Search.UseRazoring = v }},
	{"RFP", func(v bool) { config.Settings.Search.UseRFP = v }},
	{"NullMove", func(v bool) { config.Settings.Search.UseNullMove = v }},
	{"Ext", func(v bool) { config.Settings.Search.UseExt = v }},
	{"ExtAddDepth", func(v bool) { config.Settings.Search.UseExtAddDepth = v }},
	{"CheckExt", func(v bool) { config.Settings.Search.UseCheckExt = v }},
	{"ThreatExt", func(v bool) { config.Settings.Search.UseThreatExt = v }},
	{"FP", func(v bool) { config.Settings.Search.UseFP = v }},
	{"QFP", func(v bool) { config.Settings.Search.UseQFP = v }},
	{"Lmp", func(v bool) { config.Settings.Search.UseLmp = v }},
	{"Lmr", func(v bool) { config.Settings.Search.UseLmr = v }},
}

func applyCfgMask(m searchCfgMask) string {
	var off []string
	for i, b := range cfgBits {
		on := m&(1<<uint(i)) != 0
		b.set(on)
		if !on {
			off = append(off, b.name)
		}
	}
	return "off:" + strings.Join(off, ",")
}

func defaultCfgMask() searchCfgMask {
	// all on except EvalTT and ThreatExt (engine defaults)
	m := searchCfgMask(1<<uint(len(cfgBits)) - 1)
	for i, b := range cfgBits {
		if b.name == "EvalTT" || b.name == "ThreatExt" {
			m &^= 1 << uint(i)
		}
	}
	return m
}

// playLine checks that line is a playable sequence of legal moves from b.
func playLine(b *rc.Board, line []types.Move) (ok bool, at int, why string) {
	cur := b
	for i, m := range line {
		found := false
		for _, l := range cur.Legal() {
			if rcKey(l) == uint32(m.MoveOf()) {
				cur = cur.Apply(l)
				found = true
				break
			}
		}
		if !found {
			return false, i, fmt.Sprintf("move %d (%s) is not legal in %s", i+1, m.StringUci(), cur.FEN())
		}
	}
	return true, -1, ""
}

func movesStr(ms []types.Move) string {
	ss := make([]string, len(ms))
	for i, m := range ms {
		ss[i] = m.StringUci()
	}
	return strings.Join(ss, " ")
}

type c05root struct {
	start *rc.Board
	steps []Step
	b     *rc.Board
	kind  string
}

func (r c05root) pos() *position.Position {
	p := engPos(r.start.FEN())
	for _, st := range r.steps {
		p.DoMove(toEng(st.Move))
	}
	return p
}

func (r c05root) desc() map[string]interface{} {
	return map[string]interface{}{"start": r.start.FEN(), "moves": stepMoves(r.steps, len(r.steps)), "root": r.b.FEN(), "kind": r.kind}
}

// drawnByHistory: the engine's own root draw rule (>=2 earlier occurrences or clock>=100)
func (r c05root) drawnByHistory() bool {
	if r.b.Half >= 100 {
		return true
	}
	key := r.b.RepKey()
	n := 0
	if r.start.RepKey() == key && len(r.steps) > 0 {
		n++
	}
	for i, st := range r.steps {
		if i < len(r.steps)-1 && st.After.RepKey() == key {
			n++
		}
	}
	return n >= 2
}

func c05(c *Ctx) {
	rep := c.Rep
	roots := corpusRoots()
	s, drv := newSearch(1)

	judge := func(root c05root, mode string, cfgDesc string, chain int, res search.Result, before Obs, p *position.Position, hlen int) {
		rep.Eval(1)
		rep.Inc("searches")
		rep.Inc("mode_" + mode)
		b := root.b
		legal := b.Legal()
		payload := root.desc()
		payload["mode"], payload["config"], payload["chain_index"] = mode, cfgDesc, chain
		payload["result"] = res.String()
		// position unchanged
		after := snapshot(p, nil, true)
		for _, d := range diffFields(before.Diff(after)) {
			rep.Viol("position-modified:"+firstField(d), "StartSearch changed the caller's position: "+d, payload)
		}
		_ = hlen
		if len(legal) == 0 {
			return
		}
		if res.BookMove {
			return
		}
		best := res.BestMove.MoveOf()
		isLegal := func(bd *rc.Board, m types.Move) (*rc.Board, bool) {
			for _, l := range bd.Legal() {
				if rcKey(l) == uint32(m.MoveOf()) {
					return bd.Apply(l), true
				}
			}
			return nil, false
		}
		afterBest, ok := isLegal(b, best)
		if !ok {
			k := "bestmove:illegal"
			if best == types.MoveNone {
				k = "bestmove:none"
				if root.drawnByHistory() {
					k += ":root-drawn-by-repetition-or-50"
				}
			}
			rep.Viol(k+":"+mode, fmt.Sprintf("%s search of %s reports best move %s which is not legal there (%d legal moves) [%s]", mode, b.FEN(), best.StringUci(), len(legal), cfgDesc), payload)
			return
		}
		if pm := res.PonderMove.MoveOf(); pm != types.MoveNone {
			rep.Inc("ponder_moves_validated")
			if _, ok := isLegal(afterBest, pm); !ok {
				src := "from-pv"
				if len(res.Pv) < 2 {
					src = "from-hash"
				}
				rep.Viol("pondermove:illegal:"+src, fmt.Sprintf("%s search of %s: ponder move %s is not legal after best move %s [%s]", mode, b.FEN(), pm.StringUci(), best.StringUci(), cfgDesc), payload)
			}
		}
		// final PV
		pv := []types.Move(res.Pv)
		rep.Inc("pv_lines_validated")
		if len(pv) >= 3 {
			rep.Inc("pv_len_ge_3")
		}
		if len(pv) == 0 || pv[0].MoveOf() != best {
			rep.Viol("pv:final-does-not-start-with-bestmove", fmt.Sprintf("final pv [%s] does not start with best move %s (%s)", movesStr(pv), best.StringUci(), b.FEN()), payload)
		}
		if ok, at, why := playLine(b, pv); !ok {
			payload["pv"] = movesStr(pv)
			rep.Viol(fmt.Sprintf("pv:final-illegal:at-ply-%d", min(at, 3)), fmt.Sprintf("%s search of %s: final pv [%s]: %s [%s]", mode, b.FEN(), movesStr(pv), why, cfgDesc), payload)
		}
		// iteration PVs as sent to the GUI
		drv.mu.Lock()
		iters := append([]iterInfo(nil), drv.Iter...)
		drv.mu.Unlock()
		for _, it := range iters {
			rep.Inc("pv_lines_validated")
			if len(it.Pv) == 0 {
				rep.Viol("pv:iteration-empty", fmt.Sprintf("info depth %d carries an empty pv (%s)", it.Depth, b.FEN()), payload)
				continue
			}
			if ok, at, why := playLine(b, it.Pv); !ok {
				payload["pv"] = movesStr(it.Pv)
				rep.Viol(fmt.Sprintf("pv:iteration-illegal:at-ply-%d", min(at, 3)), fmt.Sprintf("%s search of %s: info depth %d pv [%s]: %s [%s]", mode, b.FEN(), it.Depth, movesStr(it.Pv), why, cfgDesc), payload)
			}
		}
	}

	var prevRes search.Result
	var prevSig string
	havePrev := false
	oneSearch := func(root c05root, r *Rng, mode string, cfgDesc string, chain int, nodeLimit uint64) {
		p := root.pos()
		before := snapshot(p, nil, true)
		drv.Reset()
		var lim search.Limits
		depthCap := 3 + r.Intn(4)
		switch mode {
		case "depth":
			// the node cap only bounds the cost of pathological configurations (stand-pat off on a
			// board full of promoting pawns): it is far above what an ordinary depth 6 search needs
			lim = search.Limits{Depth: 1 + r.Intn(6), Nodes: 1500000}
			if root.kind == "fifty-move-edge" {
				lim.Depth = 4 + r.Intn(5) // deep enough for lines that run into the rule
			}
			if root.kind == "heavy" {
				lim.Depth = 3 + r.Intn(6)
			}
			if root.kind == "many-moves" {
				lim.Depth = 7 + r.Intn(2)
			}
		case "nodes":
			lim = search.Limits{Nodes: nodeLimit, Depth: 8}
		case "movetime":
			lim = search.Limits{TimeControl: true, MoveTime: time.Duration(5+r.Intn(40)) * time.Millisecond}
		case "clock":
			t := time.Duration(200+r.Intn(1500)) * time.Millisecond
			lim = search.Limits{TimeControl: true, WhiteTime: t, BlackTime: t, WhiteInc: time.Duration(r.Intn(20)) * time.Millisecond, BlackInc: time.Duration(r.Intn(20)) * time.Millisecond, MovesToGo: r.Intn(3) * 10}
		case "infinite_stop":
			lim = search.Limits{Infinite: true, Depth: 0}
		case "ponder_stop":
			lim = search.Limits{Ponder: true, TimeControl: true, WhiteTime: time.Second, BlackTime: time.Second}
		case "ponder_hit":
			lim = search.Limits{Ponder: true, TimeControl: true, WhiteTime: 600 * time.Millisecond, BlackTime: 600 * time.Millisecond}
		}
		_ = depthCap
		rep.Begin(fmt.Sprintf("search %s | %s | %s | chain %d | %+v", root.b.FEN(), mode, cfgDesc, chain, lim))
		s.StartSearch(*p, lim)
		switch mode {
		case "infinite_stop", "ponder_stop":
			time.Sleep(time.Duration(r.Intn(25000)) * time.Microsecond)
			s.StopSearch()
		case "ponder_hit":
			time.Sleep(time.Duration(r.Intn(15000)) * time.Microsecond)
			s.PonderHit()
			s.WaitWhileSearching()
		default:
			s.WaitWhileSearching()
		}
		res := s.LastSearchResult()
		// the result handed out for the previous search of this Search object is a value of its
		// own: the search just finished must not have rewritten it
		if havePrev {
			rep.Eval(1)
			rep.Inc("earlier_results_rechecked")
			if now := movesStr(prevRes.Pv) + "|" + prevRes.BestMove.StringUci() + "|" + prevRes.PonderMove.StringUci(); now != prevSig {
				rep.Viol("result:earlier-result-rewritten", fmt.Sprintf("the result of the previous search on this Search object read [%s] when it was delivered and reads [%s] after the next search (%s search of %s)", prevSig, now, mode, root.b.FEN()), map[string]interface{}{"fen": root.b.FEN(), "mode": mode, "config": cfgDesc})
			}
		}
		prevRes, havePrev = res, true
		prevSig = movesStr(res.Pv) + "|" + res.BestMove.StringUci() + "|" + res.PonderMove.StringUci()
		st := s.Statistics()
		if st.TTCuts > 0 {
			rep.Inc("tt_cut_searches")
		}
		if lim.Depth > 0 && res.SearchDepth < lim.Depth && mode == "nodes" {
			rep.Inc("stopped_mid_iteration")
		}
		if mode == "infinite_stop" || mode == "ponder_stop" || mode == "movetime" || mode == "clock" || mode == "ponder_hit" {
			rep.Inc("stopped_mid_iteration")
		}
		if chain > 0 {
			rep.Inc("warm_table_searches")
		}
		rep.DistinctStr(root.b.RepKey() + mode + cfgDesc + fmt.Sprint(chain, lim.Depth, lim.Nodes))
		judge(root, mode, cfgDesc, chain, res, before, p, 0)
	}

	modes := []string{"depth", "depth", "nodes", "nodes", "movetime", "clock", "infinite_stop", "ponder_stop", "ponder_hit"}
	nChains := c.Size(320, 12000)
	for ci := 0; ci < nChains; ci++ {
		if !c.Mine(ci) {
			continue
		}
		r := SubRng(c.Seed, "c05/chain", ci)
		// a game whose successive positions are searched on one Search instance
		start := rc.MustFEN(roots[r.Intn(len(roots))])
		if ci%4 == 0 {
			start = rc.MustFEN(rc.StartFEN)
		}
		var steps []Step
		kind := "game"
		switch ci % 6 {
		case 1: // repetition-loaded history
			steps = buildCycleGame(r, start, 8+r.Intn(30), rep)
			kind = "cycle-history"
		case 2: // long history
			steps = playout(r, start, 60+r.Intn(200), Bias{Capture: 0.3, Castle: 5, Promo: 3, Ep: 8, Double: 1, KingRook: 2, Shuffle: 3})
			kind = "long-history"
		case 5: // castling is pseudo-legal but not legal at the root (transit / target attacked, in check)
			start = castleRefusedPosition(r)
			steps = nil
			kind = "castle-refused"
			rep.Inc("roots_castling_refused")
		case 4: // a board crowded with heavy pieces (as after many promotions): more than 64 legal
			// moves, squares contested by a dozen pieces, enormous quiescence trees
			start = heavyPosition(r)
			if r.Chance(0.5) {
				// one square attacked and defended by a dozen and more pieces, x-rays included
				start = contestedPosition(r)
				rep.Inc("roots_contested_square")
			}
			steps = nil
			kind = "heavy"
			rep.Inc("roots_heavy")
		case 3: // the fifty-move rule within the horizon: a start FEN with a high half-move clock
			sb := *start
			sb.Half, sb.Ep = 86+r.Intn(14), -1
			if sb.Full < 60 {
				sb.Full = 60 + r.Intn(40)
			}
			if sb.Validate() == nil {
				start = &sb
				rep.Inc("roots_fifty_move_edge")
			}
			steps = playout(r, start, r.Intn(6), Bias{Capture: 0.2, Castle: 1, Promo: 1, Ep: 1, Double: 0.2, KingRook: 2, Shuffle: 4})
			kind = "fifty-move-edge"
		default:
			steps = playout(r, start, r.Intn(40), defaultBias)
		}
		restoreSearchCfg()
		mask := defaultCfgMask()
		cfgDesc := "default"
		if ci%3 != 0 {
			mask = searchCfgMask(r.U64())
			cfgDesc = applyCfgMask(mask)
		}
		if r.Chance(0.6) {
			s.NewGame()
		}
		chainLen := 2 + r.Intn(4)
		for k := 0; k < chainLen; k++ {
			// pick the root: successive positions near the end of the game, sometimes an unrelated one
			n := len(steps) - (chainLen - 1 - k)
			if n < 0 {
				n = 0
			}
			root := c05root{start: start, steps: steps[:n], kind: kind}
			root.b = start
			if n > 0 {
				root.b = steps[n-1].After
			}
			if r.Chance(0.15) {
				ob := rc.MustFEN(roots[r.Intn(len(roots))])
				root = c05root{start: ob, b: ob, kind: "unrelated"}
			}
			if len(root.b.Legal()) == 0 {
				continue
			}
			if root.b.InCheck(root.b.White) {
				rep.Inc("roots_in_check")
			}
			if len(root.b.Legal()) == 1 {
				rep.Inc("roots_single_move")
			}
			if len(root.steps) > 0 {
				rep.Inc("roots_with_history")
			}
			if root.drawnByHistory() {
				rep.Inc("roots_drawn_by_history")
			}
			mode := modes[r.Intn(len(modes))]
			oneSearch(root, r, mode, cfgDesc, k, uint64(1+r.Intn(c.Size(3000, 20000))))
			if ci < 2 && k == 0 {
				rep.Sample(map[string]interface{}{"root": root.b.FEN(), "mode": mode, "config": cfgDesc, "result": func() string { x := s.LastSearchResult(); return x.String() }()})
			}
		}
	}
	// node-limit sweep: every stop moment of small searches
	// roots with more than 64 legal moves searched deep under the default configuration and
	// with single move-count based heuristics switched off (tables indexed by the number of
	// moves searched are sized for ordinary positions)
	nMany := c.Size(48, 1200)
	for k := 0; k < nMany; k++ {
		if !c.Mine(k) {
			continue
		}
		r := SubRng(c.Seed, "c05/many", k)
		var hb *rc.Board
		for try := 0; try < 400; try++ {
			hb = heavyPosition(r)
			if len(hb.Legal()) > 66 {
				break
			}
		}
		if len(hb.Legal()) <= 66 {
			continue
		}
		restoreSearchCfg()
		sc := &config.Settings.Search
		cfgDesc := "default"
		switch k % 4 {
		case 1:
			sc.UseLmp = false
			cfgDesc = "off:Lmp"
		case 2:
			sc.UseLmp, sc.UseFP = false, false
			cfgDesc = "off:Lmp,FP"
		case 3:
			sc.UseLmp, sc.UseLmr = false, r.Chance(0.5)
			sc.UseNullMove, sc.UseRFP, sc.UseRazoring = r.Chance(0.5), r.Chance(0.5), r.Chance(0.5)
			cfgDesc = fmt.Sprintf("off:Lmp lmr=%v null=%v rfp=%v razor=%v", sc.UseLmr, sc.UseNullMove, sc.UseRFP, sc.UseRazoring)
		}
		s.NewGame()
		rep.Inc("roots_more_than_64_moves")
		oneSearch(c05root{start: hb, b: hb, kind: "many-moves"}, r, "depth", cfgDesc, 0, 0)
	}
	nSweep := c.Size(24, 400)
	for i := 0; i < nSweep; i++ {
		if !c.Mine(i) {
			continue
		}
		r := SubRng(c.Seed, "c05/sweep", i)
		b := rc.MustFEN(roots[r.Intn(len(roots))])
		if len(b.Legal()) == 0 {
			continue
		}
		restoreSearchCfg()
		cfgDesc := "default"
		if i%2 == 1 {
			cfgDesc = applyCfgMask(searchCfgMask(r.U64()))
		}
		root := c05root{start: b, b: b, kind: "sweep"}
		maxN := c.Size(250, 2500)
		s.NewGame()
		for n := 1; n <= maxN; n++ {
			if n%50 == 1 && r.Chance(0.5) {
				s.NewGame()
			}
			p := root.pos()
			before := snapshot(p, nil, true)
			drv.Reset()
			if n%25 == 1 {
				rep.Begin(fmt.Sprintf("node sweep %s n=%d..%d %s", b.FEN(), n, n+24, cfgDesc))
			}
			res := runSearch(s, p, search.Limits{Nodes: uint64(n), Depth: 6})
			rep.Inc("node_sweep_searches")
			rep.Inc("warm_table_searches")
			if res.SearchDepth < 6 {
				rep.Inc("stopped_mid_iteration")
			}
			rep.Distinct(hashStr(b.RepKey()+cfgDesc) ^ uint64(n))
			judge(root, "nodes", cfgDesc, n, res, before, p, 0)
		}
	}
	restoreSearchCfg()
}
