package main

import (
	"bufio"
	"os"
	"path/filepath"
	"strings"

	rc "github.com/frankkopp/FrankyGo/verifh/refchess"
)

// curated positions for the hard cases named in the properties.  All are legal
// positions (checked by refchess.Validate in the self test).
var curatedFENs = []string{
	rc.StartFEN,
	// en passant whose *captured* pawn is the only shield of the own king on a diagonal
	// (the capturing pawn itself is on no line with the king)
	"8/6k1/8/8/2pP4/8/1B6/4K3 b - d3 0 1",
	"4k3/1b6/8/2Pp4/8/8/6K1/8 w - d6 0 1",
	"k7/8/8/8/3pP3/8/8/4K2Q b - e3 0 1",
	// perft suite (chessprogramming wiki)
	"r3k2r/p1ppqpb1/bn2pnp1/3PN3/1p2P3/2N2Q1p/PPPBBPPP/R3K2R w KQkq - 0 1",
	"8/2p5/3p4/KP5r/1R3p1k/8/4P1P1/8 w - - 0 1",
	"r3k2r/Pppp1ppp/1b3nbN/nP6/BBP1P3/q4N2/Pp1P2PP/R2Q1RK1 w kq - 0 1",
	"r2q1rk1/pP1p2pp/Q4n2/bbp1p3/Np6/1B3NBn/pPPP1PPP/R3K2R b KQ - 0 1",
	"rnbq1k1r/pp1Pbppp/2p5/8/2B5/8/PPP1NnPP/RNBQK2R w KQ - 1 8",
	"r4rk1/1pp1qppp/p1np1n2/2b1p1B1/2B1P1b1/P1NP1N2/1PP1QPPP/R4RK1 w - - 0 10",
	// en passant: capture exposes own king along the rank (illegal)
	"8/8/8/KPp4r/8/8/8/7k w - c6 0 1",
	"7K/8/8/8/R4pPk/8/8/8 b - g3 0 1",
	// en passant: capturing pawn pinned diagonally (illegal)
	"8/1k6/8/8/3Pp3/8/8/4K2B b - d3 0 1",
	// en passant: removal of the captured pawn opens a diagonal onto own king (illegal)
	"b7/8/8/3pP3/8/8/6K1/k7 w - d6 0 1",
	// en passant captures the checking pawn
	"8/8/8/2k5/3Pp3/8/8/4K3 b - d3 0 1",
	"4k3/8/8/3pP3/4K3/8/8/8 w - d6 0 1",
	// en passant giving discovered check: through the removed pawn (diagonal), by the mover leaving a file, along the rank both pawns leave
	"6k1/8/8/3pP3/8/8/B7/4K3 w - d6 0 1",
	"4k3/8/8/3pP3/8/8/8/4RK2 w - d6 0 1",
	"8/8/8/R2pP2k/8/8/8/4K3 w - d6 0 1",
	"4k3/8/8/8/r2Pp2K/8/8/8 b - d3 0 1",
	// en passant on the edge files, both colours
	"4k3/8/8/pP6/8/8/8/4K3 w - a6 0 1",
	"4k3/8/8/6Pp/8/8/8/4K3 w - h6 0 1",
	"4k3/8/8/8/Pp6/8/8/4K3 b - a3 0 1",
	"4k3/8/8/8/6pP/8/8/4K3 b - h3 0 1",
	// en passant from both sides / field set without capturer
	"4k3/8/8/2PpP3/8/8/8/4K3 w - d6 0 1",
	"rnbqkbnr/pppppppp/8/8/4P3/8/PPPP1PPP/RNBQKBNR b KQkq e3 0 1",
	"rnbqkbnr/ppp1pppp/8/8/3pP3/8/PPPP1PPP/RNBQKBNR b KQkq e3 0 3",
	// castling
	"r3k2r/8/8/8/8/8/8/R3K2R w KQkq - 0 1",
	"r3k2r/8/8/8/8/8/8/R3K2R b KQkq - 0 1",
	"1r2k3/8/8/8/8/8/8/R3K3 w Q - 0 1",  // b1 attacked: O-O-O still legal
	"4kr2/8/8/8/8/8/8/R3K2R w KQ - 0 1", // f1 attacked
	"3rk3/8/8/8/8/8/8/R3K2R w KQ - 0 1", // d1 attacked
	"4k1r1/8/8/8/8/8/8/R3K2R w KQ - 0 1", // g1 attacked
	"2r1k3/8/8/8/8/8/8/R3K2R w KQ - 0 1", // c1 attacked
	"4r1k1/8/8/8/8/8/8/R3K2R w KQ - 0 1", // in check
	"r3k2r/8/8/8/8/8/6B1/4K3 w kq - 0 1", // rook captured on home square
	"r3k2r/1P6/8/8/8/8/8/4K3 w kq - 0 1", // promotion capture on corner
	"r3k2r/p6p/8/8/8/8/P6P/R3K2R w Kq - 0 1",
	"rn2k2r/8/8/8/8/8/8/RN2K1NR w KQkq - 0 1", // paths blocked
	"r3k2r/8/8/8/8/8/8/R3K2R w - - 0 1",        // no rights
	// promotions
	"8/1P6/6k1/8/8/8/p1K5/8 w - - 0 1",
	"4k2r/6P1/8/8/8/8/8/7K w k - 0 1", // promotion capture is a check evasion
	"r6K/4P3/8/8/8/8/8/k7 w - - 0 1",  // promotion blocks a check
	"rnbqkbn1/pppppppP/8/8/8/8/PPPPPPP1/RNBQKBNR w KQq - 0 1",
	"rnbqkbnr/ppppppP1/8/8/8/8/PPPPPP1P/RNBQKBNR w KQkq - 0 1",
	"rnbqkbnr/pppppp1p/8/8/8/8/PPPPPPp1/RNBQKBNR b KQkq - 0 1",
	"8/7P/8/8/8/1q6/8/K6k w - - 0 1", // only promotions are legal
	"2r1k3/1P6/8/8/8/8/8/4K3 w - - 0 1",
	"8/PPPPPPPP/8/2k5/8/2K5/pppppppp/8 w - - 0 1",
	// double check, pins
	"4k3/8/5N2/8/8/8/8/4R1K1 b - - 0 1",
	"4k3/4r3/8/8/8/8/4B3/4K3 w - - 0 1",
	"4k3/8/8/8/1b6/8/3R4/4K3 w - - 0 1",
	"4k3/8/8/8/8/8/8/r2QK3 w - - 0 1",
	"4k3/8/8/b7/8/8/3Q4/4K3 w - - 0 1",
	"k7/8/8/8/8/8/1r6/K6r w - - 0 1", // single legal move
	// terminal roots
	"7k/5Q2/6K1/8/8/8/8/8 b - - 0 1",
	"k7/2Q5/1K6/8/8/8/8/8 b - - 0 1",
	"7k/8/8/8/8/1q6/8/K7 w - - 0 1",
	"R5k1/5ppp/8/8/8/8/8/6K1 b - - 0 1",
	"rnb1kbnr/pppp1ppp/8/4p3/6Pq/5P2/PPPPP2P/RNBQKBNR w KQkq - 1 3",
	// fifty-move edges
	"4k3/8/8/8/8/8/3R4/4K3 w - - 98 80",
	"4k3/8/8/8/8/8/3R4/4K3 w - - 99 80",
	"4k3/8/8/8/8/8/4R3/4K3 b - - 100 80",
	// sparse material
	"4k3/8/8/8/8/8/8/4K3 w - - 0 1",
	"4k3/8/8/8/8/8/8/4KN2 w - - 0 1",
	"4k3/8/8/8/8/8/8/4KB2 w - - 0 1",
	"4k3/8/8/8/8/8/8/4KR2 w - - 0 1",
	"4k3/8/8/8/8/8/8/3BKN2 w - - 0 1",
	"4k3/8/8/8/8/8/8/2BBK3 w - - 0 1",
	"4kb2/8/8/8/8/8/8/2B1K3 w - - 0 1",
	"4k3/8/8/8/8/8/4P3/4K3 w - - 0 1",
	"8/8/8/4k3/8/8/8/KQ6 w - - 0 1",
	// blocked / zugzwang structures
	"8/k7/3p4/p2P1p2/P2P1P2/8/8/K7 w - - 0 1",
	"6k1/8/6p1/5pPp/5P1P/8/8/QR4K1 b - - 0 1",
	"6k1/8/6p1/5pPp/5P1P/8/8/QR4K1 w - - 0 1",
	"8/8/p1p5/1p5p/1P5p/8/PPP2K1p/4R1rk w - - 0 1",
	"8/6B1/p5p1/Pp4kp/1P5r/5P1Q/4q1PK/8 w - - 0 32",
	"1q1k4/2Rr4/8/2Q3K1/8/8/8/8 w - - 0 1",
	"7k/5K2/5P1p/3p4/6P1/3p4/8/8 w - - 0 1",
	"8/8/1p1r1k2/p1pPN1p1/P3KnP1/1P6/8/3R4 b - - 0 1",
	// ordinary middlegames
	"r1bqkbnr/pppp1ppp/2n5/4p3/4P3/5N2/PPPP1PPP/RNBQKB1R w KQkq - 2 3",
	"r1bqk2r/pppp1ppp/2n2n2/2b1p3/2B1P3/2N2N2/PPPP1PPP/R1BQK2R w KQkq - 6 5",
	"r2q1rk1/ppp2ppp/2npbn2/2b1p3/2B1P3/2NPBN2/PPP2PPP/R2Q1RK1 w - - 4 8",
	"2rq1rk1/pb1n1ppN/4p3/1pb5/3P1Pn1/P1N5/1PQ1B1PP/R1B2RK1 b - - 0 16",
	"r1b1kb1r/1p1n1ppp/p2ppn2/6BB/2qNP3/2N5/PPP2PPP/R2Q1RK1 w kq - 2 10",
	"3r2k1/pp3ppp/2p5/8/3qP3/1B6/PP3QPP/6K1 w - - 0 1",
}

func loadRepoFens() []string {
	var res []string
	exe, _ := os.Executable()
	cands := []string{
		filepath.Join(filepath.Dir(exe), "..", "harness", "data", "repo_fens.txt"),
		filepath.Join(os.Getenv("VERIF_ROOT"), "harness", "data", "repo_fens.txt"),
		"/verif/harness/data/repo_fens.txt",
	}
	for _, c := range cands {
		f, err := os.Open(c)
		if err != nil {
			continue
		}
		sc := bufio.NewScanner(f)
		for sc.Scan() {
			l := strings.TrimSpace(sc.Text())
			if l == "" {
				continue
			}
			l += " 0 1"
			b, err := rc.ParseFEN(l)
			if err != nil || b.Validate() != nil || !epConsistent(b) || !castleConsistent(b) {
				continue
			}
			res = append(res, b.FEN())
		}
		_ = f.Close()
		break
	}
	return res
}

func castleConsistent(b *rc.Board) bool {
	if (b.Castle[0] || b.Castle[1]) && b.Sq[4] != 'K' {
		return false
	}
	if (b.Castle[2] || b.Castle[3]) && b.Sq[60] != 'k' {
		return false
	}
	if b.Castle[0] && b.Sq[7] != 'R' {
		return false
	}
	if b.Castle[1] && b.Sq[0] != 'R' {
		return false
	}
	if b.Castle[2] && b.Sq[63] != 'r' {
		return false
	}
	if b.Castle[3] && b.Sq[56] != 'r' {
		return false
	}
	return true
}

// epConsistent: the ep target must be behind a pawn of the side that just moved,
// on the right rank, with the origin square and the target empty.
func epConsistent(b *rc.Board) bool {
	if b.Ep < 0 {
		return true
	}
	r, f := rc.Rank(b.Ep), rc.File(b.Ep)
	if b.White {
		return r == 5 && b.Sq[rc.Sq(f, 4)] == 'p' && b.Sq[rc.Sq(f, 5)] == 0 && b.Sq[rc.Sq(f, 6)] == 0
	}
	return r == 2 && b.Sq[rc.Sq(f, 3)] == 'P' && b.Sq[rc.Sq(f, 2)] == 0 && b.Sq[rc.Sq(f, 1)] == 0
}

type Step struct {
	Before *rc.Board
	Move   rc.Move
	After  *rc.Board
}

type Bias struct {
	Capture, Castle, Promo, Ep, Double, KingRook, Shuffle float64
}

var defaultBias = Bias{Capture: 3, Castle: 10, Promo: 8, Ep: 12, Double: 2, KingRook: 1.5, Shuffle: 1}

// playout plays up to maxPlies random legal moves (weighted) from start.
func playout(r *Rng, start *rc.Board, maxPlies int, bias Bias) []Step {
	var steps []Step
	b := start
	for i := 0; i < maxPlies; i++ {
		ms := b.Legal()
		if len(ms) == 0 {
			break
		}
		ws := make([]float64, len(ms))
		tot := 0.0
		for j, m := range ms {
			w := 1.0
			p := b.Sq[m.From]
			switch {
			case m.Kind == rc.Castling:
				w = bias.Castle
			case m.Kind == rc.EnPassant:
				w = bias.Ep
			case m.Kind == rc.Promotion:
				w = bias.Promo
			case b.Sq[m.To] != 0:
				w = bias.Capture
			case (p == 'P' || p == 'p') && (m.To-m.From == 16 || m.From-m.To == 16):
				w = bias.Double
			case p == 'K' || p == 'k' || p == 'R' || p == 'r':
				w = bias.KingRook
			case p == 'P' || p == 'p':
				w = 1
			default:
				w = bias.Shuffle
			}
			ws[j] = w
			tot += w
		}
		x := float64(r.U64()>>11) / float64(1<<53) * tot
		k := 0
		for ; k < len(ms)-1; k++ {
			x -= ws[k]
			if x < 0 {
				break
			}
		}
		n := b.Apply(ms[k])
		steps = append(steps, Step{b, ms[k], n})
		b = n
	}
	return steps
}

// synthPosition builds a random legal position (not necessarily reachable).
func synthPosition(r *Rng) *rc.Board {
	for {
		b := &rc.Board{Ep: -1, Full: 1 + r.Intn(80), Half: 0}
		home := r.Chance(0.4)
		wk, bk := r.Intn(64), r.Intn(64)
		if home {
			if r.Chance(0.7) {
				wk = 4
			}
			if r.Chance(0.7) {
				bk = 60
			}
		}
		if wk == bk || (abs(rc.File(wk)-rc.File(bk)) <= 1 && abs(rc.Rank(wk)-rc.Rank(bk)) <= 1) {
			continue
		}
		b.Sq[wk], b.Sq[bk] = 'K', 'k'
		if home {
			for _, x := range []struct {
				sq int
				p  byte
			}{{0, 'R'}, {7, 'R'}, {56, 'r'}, {63, 'r'}} {
				if b.Sq[x.sq] == 0 && r.Chance(0.7) {
					b.Sq[x.sq] = x.p
				}
			}
		}
		n := r.Intn(26)
		pieces := "PPPPNBRQppppnbrq"
		if r.Chance(0.2) {
			pieces = "PPPPPPpppppp"
		}
		for i := 0; i < n; i++ {
			sq := r.Intn(64)
			if b.Sq[sq] != 0 {
				continue
			}
			p := pieces[r.Intn(len(pieces))]
			if (p == 'P' || p == 'p') && (rc.Rank(sq) == 0 || rc.Rank(sq) == 7) {
				continue
			}
			b.Sq[sq] = p
		}
		b.White = r.Chance(0.5)
		if b.InCheck(!b.White) {
			continue
		}
		// castling rights only where consistent
		if b.Sq[4] == 'K' {
			b.Castle[0] = b.Sq[7] == 'R' && r.Chance(0.7)
			b.Castle[1] = b.Sq[0] == 'R' && r.Chance(0.7)
		}
		if b.Sq[60] == 'k' {
			b.Castle[2] = b.Sq[63] == 'r' && r.Chance(0.7)
			b.Castle[3] = b.Sq[56] == 'r' && r.Chance(0.7)
		}
		// ep target
		var cands []int
		for f := 0; f < 8; f++ {
			if b.White {
				if b.Sq[rc.Sq(f, 4)] == 'p' && b.Sq[rc.Sq(f, 5)] == 0 && b.Sq[rc.Sq(f, 6)] == 0 {
					cands = append(cands, rc.Sq(f, 5))
				}
			} else {
				if b.Sq[rc.Sq(f, 3)] == 'P' && b.Sq[rc.Sq(f, 2)] == 0 && b.Sq[rc.Sq(f, 1)] == 0 {
					cands = append(cands, rc.Sq(f, 2))
				}
			}
		}
		if len(cands) > 0 && r.Chance(0.6) {
			b.Ep = cands[r.Intn(len(cands))]
		}
		if b.Ep < 0 {
			b.Half = r.Intn(60)
		}
		return b
	}
}

var repoFens []string

// corpusRoots returns curated + repo FENs (+ mirrors).
func corpusRoots() []string {
	if repoFens == nil {
		repoFens = loadRepoFens()
	}
	seen := map[string]bool{}
	var res []string
	add := func(f string) {
		if !seen[f] {
			seen[f] = true
			res = append(res, f)
		}
	}
	for _, f := range curatedFENs {
		add(rc.MustFEN(f).FEN())
	}
	for _, f := range curatedFENs {
		add(rc.MustFEN(f).Mirror().FEN())
	}
	for _, f := range repoFens {
		add(f)
	}
	return res
}

// Game is one corpus game: a start position and the steps played from it
// (no steps = a position set up from FEN only).
type Game struct {
	Start *rc.Board
	Steps []Step
	Kind  string // root | playout | synth
}

// forEachGame generates the corpus of this shard: every root (curated, their
// mirrors, the repository's test FENs), weighted random playouts from the start
// position and from roots, and synthesised random legal positions (some with a
// short playout).  nPlayouts and nSynth are global counts split over shards.
func forEachGame(c *Ctx, label string, nPlayouts, playLen, nSynth int, f func(g Game)) {
	roots := corpusRoots()
	for i, fen := range roots {
		if c.Mine(i) {
			f(Game{Start: rc.MustFEN(fen), Kind: "root"})
		}
	}
	for i := 0; i < nPlayouts; i++ {
		if !c.Mine(i) {
			continue
		}
		r := SubRng(c.Seed, label+"/playout", i)
		start := rc.StartFEN
		if i%3 != 0 {
			start = roots[r.Intn(len(roots))]
		}
		b0 := rc.MustFEN(start)
		bias := defaultBias
		if i%5 == 4 {
			bias = Bias{1, 1, 1, 1, 1, 1, 1}
		}
		f(Game{Start: b0, Steps: playout(r, b0, 1+r.Intn(playLen), bias), Kind: "playout"})
	}
	for i := 0; i < nSynth; i++ {
		if !c.Mine(i) {
			continue
		}
		r := SubRng(c.Seed, label+"/synth", i)
		b := synthPosition(r)
		g := Game{Start: b, Kind: "synth"}
		if i%4 == 0 {
			g.Steps = playout(r, b, 1+r.Intn(12), defaultBias)
		}
		f(g)
	}
}

func stepMoves(steps []Step, n int) []string {
	r := make([]string, 0, n)
	for i := 0; i < n && i < len(steps); i++ {
		r = append(r, steps[i].Move.UCI())
	}
	return r
}

func movesUci(ms []rc.Move) []string {
	r := make([]string, len(ms))
	for i, m := range ms {
		r[i] = m.UCI()
	}
	return r
}

// heavyPosition builds a legal position crowded with queens, rooks and bishops of both
// colours (as after many promotions): quiescence trees are huge there.
func heavyPosition(r *Rng) *rc.Board {
	for {
		b := &rc.Board{Ep: -1, Full: 30 + r.Intn(60), Half: r.Intn(20)}
		wk, bk := r.Intn(64), r.Intn(64)
		if wk == bk || (abs(rc.File(wk)-rc.File(bk)) <= 1 && abs(rc.Rank(wk)-rc.Rank(bk)) <= 1) {
			continue
		}
		b.Sq[wk], b.Sq[bk] = 'K', 'k'
		n := 10 + r.Intn(26)
		pieces := "QQQRBNqqqrbn"
		for i := 0; i < n; i++ {
			sq := r.Intn(64)
			if b.Sq[sq] == 0 {
				b.Sq[sq] = pieces[r.Intn(len(pieces))]
			}
		}
		b.White = r.Chance(0.5)
		if b.Validate() != nil || len(b.Legal()) == 0 {
			continue
		}
		return b
	}
}

// contestedPosition builds a legal position in which one square holds a piece attacked and
// defended by many pieces of both sides, sliders stacked behind each other on the lines
// through it (x-ray attackers) and knights: exchange sequences of 16 and more captures.
func contestedPosition(r *Rng) *rc.Board {
	dirs := [8][2]int{{1, 0}, {-1, 0}, {0, 1}, {0, -1}, {1, 1}, {1, -1}, {-1, 1}, {-1, -1}}
	for {
		b := &rc.Board{Ep: -1, Full: 40 + r.Intn(40), Half: r.Intn(10)}
		tf, tr := 2+r.Intn(4), 2+r.Intn(4)
		b.White = r.Chance(0.5)
		victim := byte('n')
		if !b.White {
			victim = 'N'
		}
		b.Sq[rc.Sq(tf, tr)] = victim
		n := 0
		for di, d := range dirs {
			k := 1 + r.Intn(3)
			for step := 1; step <= k; step++ {
				f, rk := tf+d[0]*step, tr+d[1]*step
				if f < 0 || f > 7 || rk < 0 || rk > 7 {
					break
				}
				pc := byte('Q')
				if r.Chance(0.5) {
					if di < 4 {
						pc = 'R'
					} else {
						pc = 'B'
					}
				}
				if r.Chance(0.5) {
					pc += 32
				}
				b.Sq[rc.Sq(f, rk)] = pc
				n++
			}
		}
		for _, d := range [][2]int{{1, 2}, {2, 1}, {-1, 2}, {-2, 1}, {1, -2}, {2, -1}, {-1, -2}, {-2, -1}} {
			f, rk := tf+d[0], tr+d[1]
			if f < 0 || f > 7 || rk < 0 || rk > 7 || b.Sq[rc.Sq(f, rk)] != 0 || r.Chance(0.4) {
				continue
			}
			pc := byte('N')
			if r.Chance(0.5) {
				pc = 'n'
			}
			b.Sq[rc.Sq(f, rk)] = pc
			n++
		}
		if n < 16 {
			continue
		}
		// kings on free squares
		placed := false
		for try := 0; try < 200 && !placed; try++ {
			wk, bk := r.Intn(64), r.Intn(64)
			if wk == bk || b.Sq[wk] != 0 || b.Sq[bk] != 0 || (abs(rc.File(wk)-rc.File(bk)) <= 1 && abs(rc.Rank(wk)-rc.Rank(bk)) <= 1) {
				continue
			}
			nb := *b
			nb.Sq[wk], nb.Sq[bk] = 'K', 'k'
			if nb.Validate() == nil && len(nb.Legal()) > 0 {
				*b = nb
				placed = true
			}
		}
		if placed {
			return b
		}
	}
}

// castleRefusedPosition builds a legal position in which the side to move has a castling move
// that is pseudo-legal (right held, squares between king and rook empty) but not legal (king in
// check, or transit / target square attacked).
func castleRefusedPosition(r *Rng) *rc.Board {
	for {
		b := synthPosition(r)
		if b.CastleString() == "-" {
			continue
		}
		legal := map[string]bool{}
		for _, m := range b.Legal() {
			legal[m.UCI()] = true
		}
		if len(legal) == 0 {
			continue
		}
		for _, m := range b.PseudoLegal() {
			if m.Kind == rc.Castling && !legal[m.UCI()] {
				return b
			}
		}
	}
}
