package main

import (
	"bytes"
	"encoding/gob"
	"fmt"
	"os"
	"path/filepath"
	"time"

	"github.com/frankkopp/FrankyGo/internal/openingbook"
	"github.com/frankkopp/FrankyGo/internal/position"
)

func init() {
	register(&CheckSpec{
		ID: "C20", Fn: c20, Resume: true, Level: "fault_enumeration",
		Rule:        "round trip: a book built with the cache on and a new Book loading that cache are compared entry by entry (keys, counters, successor lists as sequences); crash points: for cache files of books of several sizes EVERY prefix length 0..len-1 (every byte for files up to 16 KB, every byte of the first and last 4 KB plus a stride in between for larger ones) is installed as the cache and Initialize(useCache=true, recreate=false) is run under a watchdog; the cache path being a directory or a dangling symlink (undecodable and not rewritable); corruptions: bit flips, overwritten ranges, zero fill, appended garbage, each first classified by decoding the same bytes with encoding/gob in the harness (only undecodable variants must yield the source book; decodable ones must merely not crash or hang); repeated initialisation in the same process after a failed load, and re-initialisation (recreateCache) of a Book object that was served from the cache; a hang is a violation only if the in-process goroutine dump proves a deadlock; after a proven hang the process is restarted after that case; distinct = distinct (book, fault) cases",
		Assumptions: []string{"the source-built book of the same file is the reference (its correctness is C19's subject)", "successor order of a rebuilt book may differ (parallel build): compared as sets there, as sequences for the cache round trip"},
		Required:    []string{"books", "roundtrips", "crash_points", "crash_points_first_4k", "corruptions_undecodable", "corruptions_decodable", "repeated_init_after_failed_load", "missing_cache", "empty_cache", "reinit_after_cache_load", "unusable_cache_path", "reset_and_init_again_over_damaged_cache"},
		MinEvals:    1000,
		TimeoutQ:    20 * 60e9,
	})
}

type bookSnap struct {
	cnt  map[uint64]int
	succ map[uint64][]openingbook.Successor
	n    int
}

func snapBook(b *openingbook.Book, keys map[uint64]int) *bookSnap {
	s := &bookSnap{cnt: map[uint64]int{}, succ: map[uint64][]openingbook.Successor{}, n: b.NumberOfEntries()}
	for k := range keys {
		if e, ok := b.GetEntry(position.Key(k)); ok {
			s.cnt[k] = e.Counter
			s.succ[k] = e.Moves
		}
	}
	return s
}

func sameSucc(a, b []openingbook.Successor, asSet bool) bool {
	if len(a) != len(b) {
		return false
	}
	if !asSet {
		for i := range a {
			if a[i] != b[i] {
				return false
			}
		}
		return true
	}
	m := map[openingbook.Successor]int{}
	for _, x := range a {
		m[x]++
	}
	for _, x := range b {
		m[x]--
	}
	for _, v := range m {
		if v != 0 {
			return false
		}
	}
	return true
}

func (a *bookSnap) equal(b *bookSnap, succAsSet bool) string {
	if a.n != b.n {
		return fmt.Sprintf("entry count %d vs %d", a.n, b.n)
	}
	for k, v := range a.cnt {
		if w, ok := b.cnt[k]; !ok || w != v {
			return fmt.Sprintf("counter of key %d: %d vs %d (present=%v)", k, v, w, ok)
		}
		// a rebuilt book may legitimately link a transposed position from a
		// different predecessor (only the first arrival adds the edge): successor
		// lists are only compared for the cache round trip, where they must be
		// identical sequences
		if !succAsSet && !sameSucc(a.succ[k], b.succ[k], false) {
			return fmt.Sprintf("successors of key %d differ", k)
		}
	}
	return ""
}

// initWithWatchdog runs Initialize under a watchdog. hung=true only with a proven deadlock.
func initWithWatchdog(b *openingbook.Book, dir, file string, timeout time.Duration) (err error, panicMsg string, hung bool, sig string, timedOut bool) {
	done := make(chan struct{})
	go func() {
		defer close(done)
		if pn, msg := guard(func() { err = b.Initialize(dir, file, openingbook.Simple, true, false) }); pn {
			panicMsg = msg
		}
	}()
	select {
	case <-done:
		return
	case <-time.After(timeout):
		dl, s := provenDeadlock()
		return nil, "", dl, s, true
	}
}

func c20(c *Ctx) {
	rep := c.Rep
	dir, _ := os.Getwd()
	dir = filepath.Join(dir, fmt.Sprintf("cache-%d", c.Shard))
	_ = os.MkdirAll(dir, 0o755)
	defer os.RemoveAll(dir)
	file := "book.txt"
	cachePath := filepath.Join(dir, file+".cache")
	sizes := []int{1, 3, 12, 60, 250}
	if c.Thorough() {
		sizes = append(sizes, 2, 5, 30, 120, 600, 1500)
	}
	caseIdx := 0
	for bi, nGames := range sizes {
		r := SubRng(c.Seed, "c20/book", bi)
		bs := genBookSet(r, nGames, 4+r.Intn(24))
		want, _ := expectedBook(bs)
		text := bs.renderSimple(r)
		if err := os.WriteFile(filepath.Join(dir, file), []byte(text), 0o644); err != nil {
			rep.Inconclusive("cannot write book: " + err.Error())
			return
		}
		// reference: source-built book, cache off
		ref := openingbook.NewBook()
		if err := ref.Initialize(dir, file, openingbook.Simple, false, false); err != nil {
			rep.Inconclusive("reference build failed: " + err.Error())
			return
		}
		refSnap := snapBook(ref, want)
		if c.Shard == 0 {
			rep.Inc("books")
		}
		// --- missing cache + round trip (shard 0 only, cheap)
		_ = os.Remove(cachePath)
		caseIdx++
		if c.Mine(caseIdx) && c.Case(caseIdx, fmt.Sprintf("book %d (%d games): missing cache, then round trip", bi, nGames)) {
			b1 := openingbook.NewBook()
			err, pm, hung, sig, to := initWithWatchdog(b1, dir, file, 20*time.Second)
			rep.Eval(1)
			rep.Inc("missing_cache")
			if c20outcome(rep, "missing-cache", bi, 0, err, pm, hung, sig, to) {
				if d := refSnap.equal(snapBook(b1, want), true); d != "" {
					rep.Viol("cache:missing:book-differs", "with a missing cache file the book differs from the source-built book: "+d, map[string]interface{}{"book": bi})
				}
				// the cache must exist now and load back exactly what was saved
				b2 := openingbook.NewBook()
				err, pm, hung, sig, to = initWithWatchdog(b2, dir, file, 20*time.Second)
				rep.Eval(1)
				rep.Inc("roundtrips")
				if c20outcome(rep, "roundtrip-load", bi, 0, err, pm, hung, sig, to) {
					if _, e := os.Stat(cachePath); e != nil {
						rep.Viol("cache:not-written", "Initialize with useCache=true did not leave a cache file", map[string]interface{}{"book": bi})
					}
					if d := snapBook(b1, want).equal(snapBook(b2, want), false); d != "" {
						rep.Viol("cache:roundtrip-differs", "the book loaded from the cache differs from the book that was saved: "+d, map[string]interface{}{"book": bi, "games": nGames})
					}
					// the same Book object, already served from the cache, is initialised again with
					// the cache to be recreated: what it held must not leak into the rebuilt book
					var err2 error
					if pn, msg := guard(func() { err2 = b2.Initialize(dir, file, openingbook.Simple, true, true) }); pn {
						rep.Viol("cache:reinit-after-cache-load:panic", "Initialize(recreate) on a Book served from the cache panics: "+msg, map[string]interface{}{"book": bi})
					} else if err2 == nil {
						rep.Eval(1)
						rep.Inc("reinit_after_cache_load")
						if d := refSnap.equal(snapBook(b2, want), true); d != "" {
							rep.Viol("cache:reinit-after-cache-load:book-differs", "a Book served from the cache and initialised again with recreateCache=true differs from the source-built book: "+d, map[string]interface{}{"book": bi, "games": nGames})
						}
					}
				}
			}
		}
		// a pristine cache image for the fault cases
		_ = os.Remove(cachePath)
		{
			b := openingbook.NewBook()
			if err := b.Initialize(dir, file, openingbook.Simple, true, true); err != nil {
				rep.Inconclusive("cannot create cache: " + err.Error())
				return
			}
		}
		img, err := os.ReadFile(cachePath)
		if err != nil || len(img) == 0 {
			rep.Viol("cache:not-written", "no cache file after Initialize(useCache=true, recreate=true)", map[string]interface{}{"book": bi})
			continue
		}
		rep.Count("cache_bytes", int64(len(img)))
		// --- crash points: every prefix
		var offsets []int
		if len(img) <= 16*1024 || c.Thorough() && len(img) <= 64*1024 {
			for o := 0; o < len(img); o++ {
				offsets = append(offsets, o)
			}
		} else {
			stride := len(img) / 600
			if c.Thorough() {
				stride = len(img) / 6000
			}
			if stride < 1 {
				stride = 1
			}
			for o := 0; o < len(img); o++ {
				if o < 4096 || o >= len(img)-4096 || o%stride == 0 {
					offsets = append(offsets, o)
				}
			}
		}
		runFault := func(kind string, off int, data []byte, mustEqual bool) bool {
			caseIdx++
			if !c.Mine(caseIdx) {
				return false
			}
			if !c.Case(caseIdx, fmt.Sprintf("book %d (%d games, cache %d bytes): %s at %d", bi, nGames, len(img), kind, off)) {
				return false
			}
			if err := os.WriteFile(cachePath, data, 0o644); err != nil {
				rep.Inconclusive("cannot write cache: " + err.Error())
				return false
			}
			b := openingbook.NewBook()
			err, pm, hung, sig, to := initWithWatchdog(b, dir, file, 15*time.Second)
			rep.Eval(1)
			rep.DistinctStr(fmt.Sprintf("%d/%s/%d/%d", bi, kind, off, len(data)))
			if !c20outcome(rep, kind, bi, off, err, pm, hung, sig, to) {
				return true
			}
			if mustEqual {
				if d := refSnap.equal(snapBook(b, want), true); d != "" {
					rep.Viol("cache:"+kind+":book-differs", fmt.Sprintf("cache damaged (%s at byte %d of %d): resulting book differs from the source-built book: %s", kind, off, len(img), d),
						map[string]interface{}{"book": bi, "offset": off, "kind": kind})
				}
			}
			// the same Book object, reset and initialised again over the same damaged cache
			if off%5 == 0 {
				if err := os.WriteFile(cachePath, data, 0o644); err == nil {
					b.Reset()
					err, pm, hung, sig, to := initWithWatchdog(b, dir, file, 15*time.Second)
					rep.Eval(1)
					rep.Inc("reset_and_init_again_over_damaged_cache")
					if c20outcome(rep, kind+":reset-reinit", bi, off, err, pm, hung, sig, to) && mustEqual {
						if d := refSnap.equal(snapBook(b, want), true); d != "" {
							rep.Viol("cache:"+kind+":reset-reinit:book-differs", fmt.Sprintf("cache damaged (%s at byte %d of %d): after Reset() and a second Initialize on the same Book the book differs from the source-built book: %s", kind, off, len(img), d),
								map[string]interface{}{"book": bi, "offset": off, "kind": kind})
						}
					}
				}
			}
			// repeated initialisation in the same process must still work
			if off%7 == 0 {
				b2 := openingbook.NewBook()
				err, pm, hung, sig, to := initWithWatchdog(b2, dir, file, 15*time.Second)
				rep.Inc("repeated_init_after_failed_load")
				c20outcome(rep, kind+":repeat", bi, off, err, pm, hung, sig, to)
			}
			return true
		}
		for _, o := range offsets {
			if runFault("truncated", o, img[:o], true) {
				rep.Inc("crash_points")
				if o < 4096 {
					rep.Inc("crash_points_first_4k")
				}
				if o == 0 {
					rep.Inc("empty_cache")
				}
			}
		}
		// --- the cache path in a state that can neither be decoded nor rewritten
		for _, kind := range []string{"path-is-directory", "dangling-symlink"} {
			caseIdx++
			if !c.Mine(caseIdx) || !c.Case(caseIdx, fmt.Sprintf("book %d: cache %s", bi, kind)) {
				continue
			}
			_ = os.RemoveAll(cachePath)
			var perr error
			if kind == "path-is-directory" {
				perr = os.Mkdir(cachePath, 0o755)
			} else {
				perr = os.Symlink(filepath.Join(dir, "no-such-dir", "x.cache"), cachePath)
			}
			if perr != nil {
				rep.Inconclusive("cannot prepare cache path: " + perr.Error())
				continue
			}
			b := openingbook.NewBook()
			err, pm, hung, sig, to := initWithWatchdog(b, dir, file, 15*time.Second)
			rep.Eval(1)
			rep.Inc("unusable_cache_path")
			rep.DistinctStr(fmt.Sprintf("%d/%s", bi, kind))
			if c20outcome(rep, kind, bi, 0, err, pm, hung, sig, to) {
				if d := refSnap.equal(snapBook(b, want), true); d != "" {
					rep.Viol("cache:"+kind+":book-differs", "with an unusable cache path the book differs from the source-built book: "+d, map[string]interface{}{"book": bi, "kind": kind})
				}
			}
			_ = os.RemoveAll(cachePath)
		}
		// --- corruptions
		nCorr := c.Size(60, 2500)
		for k := 0; k < nCorr; k++ {
			data := append([]byte(nil), img...)
			kind := ""
			off := r.Intn(len(data))
			switch r.Intn(5) {
			case 0:
				data[off] ^= 1 << uint(r.Intn(8))
				kind = "bitflip"
			case 1:
				n := 1 + r.Intn(64)
				for j := off; j < off+n && j < len(data); j++ {
					data[j] = byte(r.Intn(256))
				}
				kind = "overwrite"
			case 2:
				n := 1 + r.Intn(256)
				for j := off; j < off+n && j < len(data); j++ {
					data[j] = 0
				}
				kind = "zerofill"
			case 3:
				g := make([]byte, 1+r.Intn(200))
				for j := range g {
					g[j] = byte(r.Intn(256))
				}
				data = append(data, g...)
				kind = "appended"
			default:
				// a different valid gob value
				var buf bytes.Buffer
				_ = gob.NewEncoder(&buf).Encode([]string{"not", "a", "book"})
				data = buf.Bytes()
				kind = "foreign-gob"
			}
			// classify with the harness' own decoder
			var probe map[uint64]openingbook.BookEntry
			decodable := gob.NewDecoder(bytes.NewReader(data)).Decode(&probe) == nil
			if runFault("corrupt-"+kind, off, data, !decodable) {
				if decodable {
					rep.Inc("corruptions_decodable")
				} else {
					rep.Inc("corruptions_undecodable")
				}
			}
		}
		if bi == 0 {
			rep.Sample(map[string]interface{}{"book_games": nGames, "cache_bytes": len(img), "faults": "every prefix 0..len-1, then bit flips / overwrites / zero fill / appended bytes / foreign gob"})
		}
	}
}

// c20outcome judges termination; returns true if Initialize returned normally.
func c20outcome(rep *Rep, kind string, bi, off int, err error, panicMsg string, hung bool, sig string, timedOut bool) bool {
	payload := map[string]interface{}{"book": bi, "offset": off, "kind": kind}
	if panicMsg != "" {
		rep.Viol("cache:"+kind+":panic", fmt.Sprintf("Initialize panics with a damaged cache (%s at %d): %s", kind, off, panicMsg), payload)
		return false
	}
	if timedOut {
		if hung {
			rep.Viol("cache:"+kind+":deadlock:"+sig, fmt.Sprintf("Initialize does not return with a damaged cache (%s at byte %d); the goroutine dump proves a deadlock: %s", kind, off, sig), payload)
		} else {
			rep.Inconclusive(fmt.Sprintf("Initialize (%s at %d) did not return within the watchdog: %s", kind, off, sig))
		}
		// the package-level lock may be held for good: this process is of no further use
		rep.emit(line{T: "stat", Counters: rep.counters, Evals: rep.evals, Distinct: int64(len(rep.hashes)), Samples: rep.samples}, false)
		rep.emit(line{T: "abandon", Msg: "process abandoned after a hang that was judged in-process"}, true)
		os.Exit(4)
	}
	if err != nil {
		rep.Viol("cache:"+kind+":error", fmt.Sprintf("Initialize returns an error with a damaged cache (%s at %d): %v", kind, off, err), payload)
		return false
	}
	return true
}
