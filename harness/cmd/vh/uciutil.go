package main

import (
	"bufio"
	"fmt"
	"io"
	"regexp"
	"runtime"
	"strings"
	"sync"
	"time"

	"github.com/frankkopp/FrankyGo/internal/uci"
)

// uciSess drives the real UciHandler.Loop() through pipes, exactly at the
// boundary a GUI uses, and records every line sent and received with one
// monotonic clock.
type uciLine struct {
	T    time.Duration
	Out  bool // true: engine -> gui
	Text string
}

type uciSess struct {
	h        *uci.UciHandler
	in       *io.PipeWriter
	lines    chan string
	t0       time.Time
	mu       sync.Mutex
	log      []uciLine
	loopDone chan struct{}
	rdDone   chan struct{}
	outW     *io.PipeWriter
	closed   bool
}

func newUciSess() *uciSess {
	u := &uciSess{t0: time.Now(), lines: make(chan string, 100000), loopDone: make(chan struct{}), rdDone: make(chan struct{})}
	inR, inW := io.Pipe()
	outR, outW := io.Pipe()
	u.h = uci.NewUciHandler()
	u.h.InIo = bufio.NewScanner(inR)
	u.h.InIo.Buffer(make([]byte, 0, 1<<20), 1<<22)
	u.h.OutIo = bufio.NewWriter(outW)
	u.in = inW
	u.outW = outW
	go func() {
		defer close(u.loopDone)
		u.h.Loop()
	}()
	go func() {
		defer close(u.rdDone)
		sc := bufio.NewScanner(outR)
		sc.Buffer(make([]byte, 0, 1<<20), 1<<24)
		for sc.Scan() {
			t := sc.Text()
			u.mu.Lock()
			u.log = append(u.log, uciLine{time.Since(u.t0), true, t})
			u.mu.Unlock()
			u.lines <- t
		}
	}()
	return u
}

func (u *uciSess) send(cmd string) {
	u.mu.Lock()
	u.log = append(u.log, uciLine{time.Since(u.t0), false, cmd})
	u.mu.Unlock()
	_, _ = io.WriteString(u.in, cmd+"\n")
}

// waitFor consumes engine lines until pred matches or the timeout expires.
// Returns the matching line, whether it was found, and every line consumed.
func (u *uciSess) waitFor(pred func(string) bool, timeout time.Duration) (string, bool, []string) {
	var seen []string
	deadline := time.After(timeout)
	for {
		select {
		case l := <-u.lines:
			seen = append(seen, l)
			if pred(l) {
				return l, true, seen
			}
		case <-deadline:
			return "", false, seen
		}
	}
}

// poll returns the lines that are available right now (non-blocking).
func (u *uciSess) poll() []string {
	var seen []string
	for {
		select {
		case l := <-u.lines:
			seen = append(seen, l)
		default:
			return seen
		}
	}
}

// sync sends isready and waits for readyok; returns lines seen meanwhile.
func (u *uciSess) sync(timeout time.Duration) (bool, []string) {
	u.send("isready")
	_, ok, seen := u.waitFor(func(l string) bool { return l == "readyok" }, timeout)
	return ok, seen
}

// quit ends the loop; returns false if the loop did not end.
func (u *uciSess) quit(timeout time.Duration) bool {
	u.send("quit")
	defer u.dispose()
	select {
	case <-u.loopDone:
		return true
	case <-time.After(timeout):
		return false
	}
}

// dispose releases the harness side of a session (reader goroutine, pipe buffers): the
// engine's output pipe is closed so the reader ends, the input pipe so that a loop still
// reading sees end of input.  Without it every session leaks a few MB.
func (u *uciSess) dispose() {
	u.mu.Lock()
	done := u.closed
	u.closed = true
	u.mu.Unlock()
	if done {
		return
	}
	go func() {
		// drain so that a reader blocked on a full channel can finish
		for range u.lines {
		}
	}()
	_ = u.in.Close()
	_ = u.outW.Close()
	go func() {
		<-u.rdDone
		close(u.lines)
	}()
}

func (u *uciSess) transcript(last int) []string {
	u.mu.Lock()
	defer u.mu.Unlock()
	from := 0
	if len(u.log) > last {
		from = len(u.log) - last
	}
	var r []string
	for _, l := range u.log[from:] {
		d := ">"
		if l.Out {
			d = "<"
		}
		t := l.Text
		if len(t) > 160 {
			t = t[:160] + "..."
		}
		r = append(r, fmt.Sprintf("%8.3fms %s %s", float64(l.T)/1e6, d, t))
	}
	return r
}

func isBestmove(l string) bool { return strings.HasPrefix(l, "bestmove") }

func countBestmoves(lines []string) int {
	n := 0
	for _, l := range lines {
		if isBestmove(l) {
			n++
		}
	}
	return n
}

var reInfoDepth = regexp.MustCompile(`^info depth (\d+) seldepth \d+ multipv`)
var reCfgLine = regexp.MustCompile(`^info string\s*(\d+)\s*:\s*(\w+)\s+(\S+)\s+=\s*(.*)$`)

// parseConfig extracts field -> value from the lines of "Print Config".
func parseConfig(lines []string) map[string]string {
	m := map[string]string{}
	for _, l := range lines {
		if g := reCfgLine.FindStringSubmatch(strings.TrimSpace(l)); g != nil {
			m[g[2]] = strings.TrimSpace(g[4])
		}
	}
	return m
}

// printConfig asks the engine for its configuration.
func (u *uciSess) printConfig() map[string]string {
	u.send("setoption name Print Config")
	ok, seen := u.sync(10 * time.Second)
	if !ok {
		return nil
	}
	return parseConfig(seen)
}

// inProcessDump returns the stacks of all goroutines.
func inProcessDump() string {
	buf := make([]byte, 1<<22)
	n := runtime.Stack(buf, true)
	return string(buf[:n])
}

// engineDeadlocked classifies an in-process dump: true if every goroutine that
// has an engine frame is parked on a synchronisation primitive (none running,
// runnable, sleeping, in I/O or syscall), ignoring the goroutine taking the dump
// and goroutines that only wait for input from our pipe (the UCI loop's Scan).
func engineDeadlocked(dump string) (bool, string) {
	blocks := strings.Split(dump, "\n\n")
	engine := 0
	var blocked []string
	for _, b := range blocks {
		ls := strings.Split(strings.TrimSpace(b), "\n")
		m := reGoroutine.FindStringSubmatch(ls[0])
		if m == nil {
			continue
		}
		state := m[2]
		if i := strings.Index(state, ","); i >= 0 {
			state = state[:i]
		}
		top := ""
		hasEngine := false
		waitsForInput := false
		for _, l := range ls[1:] {
			t := strings.TrimSpace(l)
			if strings.HasPrefix(t, "github.com/frankkopp/FrankyGo/internal/") {
				hasEngine = true
				if top == "" {
					if i := strings.LastIndex(t, "("); i > 0 {
						top = shortFn(t[:i])
					}
				}
			}
			if strings.HasPrefix(t, "main.inProcessDump") {
				hasEngine = false
				break
			}
			if strings.HasPrefix(t, "bufio.(*Scanner).Scan") {
				waitsForInput = true
			}
		}
		if !hasEngine {
			continue
		}
		if waitsForInput && strings.HasPrefix(top, "uci.(*UciHandler).loop") {
			continue
		}
		engine++
		if inRuntimeWorldStop(ls[1:]) {
			// runtime.GC / ReadMemStats / FreeOSMemory wait for the world to stop on a
			// runtime semaphore: slow on a loaded machine, but not a lock of the engine
			return false, "live:runtime-stop-the-world@" + top
		}
		switch state {
		case "semacquire", "sync.Mutex.Lock", "sync.RWMutex.Lock", "sync.RWMutex.RLock", "sync.WaitGroup.Wait", "chan send", "chan receive", "select", "sync.Cond.Wait":
			blocked = append(blocked, top)
		default:
			return false, "live:" + state + "@" + top
		}
	}
	if engine == 0 {
		return false, "no engine goroutine"
	}
	return true, strings.Join(uniqSorted(blocked), "|")
}

// inRuntimeWorldStop tells if the frames above the first engine frame are inside one of the
// runtime's stop-the-world services.
func inRuntimeWorldStop(frames []string) bool {
	for _, l := range frames {
		t := strings.TrimSpace(l)
		if strings.HasPrefix(t, "github.com/frankkopp/FrankyGo/internal/") {
			return false
		}
		for _, pre := range []string{"runtime.GC(", "runtime.ReadMemStats(", "runtime/debug.FreeOSMemory(", "runtime/debug.freeOSMemory(", "runtime.stopTheWorld", "runtime.gcStart(", "runtime.gcWaitOnMark(", "runtime/debug.ReadGCStats(", "runtime/debug.SetGCPercent("} {
			if strings.HasPrefix(t, pre) {
				return true
			}
		}
	}
	return false
}

// provenDeadlock takes two goroutine dumps 3 s apart: only if both show every engine
// goroutine parked on a synchronisation primitive, with the same signature, is it a deadlock.
func provenDeadlock() (bool, string) {
	dl, sig := engineDeadlocked(inProcessDump())
	if !dl {
		return false, sig
	}
	time.Sleep(3 * time.Second)
	dl2, sig2 := engineDeadlocked(inProcessDump())
	if !dl2 {
		return false, sig2 + " (second dump; the first looked blocked: " + sig + ")"
	}
	if sig2 != sig {
		return false, "live:blocked-set-changed:" + sig + "->" + sig2
	}
	return true, sig
}

func uniqSorted(s []string) []string {
	m := map[string]bool{}
	var r []string
	for _, x := range s {
		if !m[x] {
			m[x] = true
			r = append(r, x)
		}
	}
	for i := 0; i < len(r); i++ {
		for j := i + 1; j < len(r); j++ {
			if r[j] < r[i] {
				r[i], r[j] = r[j], r[i]
			}
		}
	}
	return r
}
