package main

import (
	"fmt"

	"github.com/frankkopp/FrankyGo/internal/movegen"
	"github.com/frankkopp/FrankyGo/internal/position"
	"github.com/frankkopp/FrankyGo/internal/types"
	rc "github.com/frankkopp/FrankyGo/verifh/refchess"
)

func init() {
	register(&CheckSpec{
		ID: "C01", Fn: c01,
		Rule: "every node = one (position, how-reached) pair whose engine legal-move multiset is compared with refchess; corpus = curated hard cases + mirrors + repo test FENs + weighted random playouts + synthesised legal positions + full-width trees; perft node totals in both generator modes; distinct = distinct position identities (placement/side/rights/ep) compared",
		Assumptions: []string{"refchess (independent rules implementation, gated by published perft counts in setup) is the oracle", "positions are legal and have consistent castling rights / ep target"},
		Required: []string{"nodes_after_hascheck_query", "ep_legal", "ep_illegal_pseudo", "castle_legal", "castle_refused_in_check", "castle_refused_transit", "castle_refused_target", "castle_allowed_bfile_attacked",
			"promo_moves", "promo_capture", "underpromo_evasion", "double_check", "in_check_nodes", "perft_compared", "tree_nodes", "from_fen_nodes", "by_play_nodes"},
		MinEvals: 1000,
	})
}

type c01state struct {
	nodeNo int
	c  *Ctx
	mg *movegen.Movegen
}

func moveClass(b *rc.Board, m rc.Move) string {
	switch m.Kind {
	case rc.Castling:
		return "castling"
	case rc.EnPassant:
		return "enpassant"
	case rc.Promotion:
		return "promotion"
	}
	p := b.Sq[m.From]
	if p >= 'a' {
		p -= 32
	}
	if p == 0 {
		return "from-empty-square"
	}
	return string(p)
}

// compareNode compares engine legal moves of p with refchess legal moves of b.
// Returns the refchess legal list and whether they agree.
func (s *c01state) compareNode(p *position.Position, b *rc.Board, how string, ctx map[string]interface{}) ([]rc.Move, bool) {
	rep := s.c.Rep
	rep.Eval(1)
	rep.DistinctStr(b.RepKey())
	ref := b.Legal()
	want := map[uint32]rc.Move{}
	for _, m := range ref {
		want[rcKey(m)] = m
	}
	// the position object may have been asked other things before (the search asks for the
	// in-check status at every node): cached answers must not change the legal list
	s.nodeNo++
	if s.nodeNo%2 == 0 {
		p.HasCheck()
		how += "+after-HasCheck"
		rep.Inc("nodes_after_hascheck_query")
	}
	got := s.mg.GenerateLegalMoves(p, movegen.GenAll)
	seen := map[uint32]int{}
	ok := true
	var engList []types.Move
	for _, m := range *got {
		engList = append(engList, m)
	}
	mk := func() map[string]interface{} {
		r := map[string]interface{}{"fen": b.FEN(), "how": how, "engine": engUciList(engList), "refchess": uciList(ref)}
		for k, v := range ctx {
			r[k] = v
		}
		return r
	}
	for _, m := range engList {
		k := uint32(m.MoveOf())
		seen[k]++
		if seen[k] == 2 {
			ok = false
			rep.Viol("movegen:repeated:"+moveClass(b, fromEng(m)), fmt.Sprintf("legal move list contains %s twice in %s (%s)", m.StringUci(), b.FEN(), how), mk())
		}
		if _, in := want[k]; !in && seen[k] == 1 {
			ok = false
			rep.Viol("movegen:extra:"+moveClass(b, fromEng(m)), fmt.Sprintf("engine lists %s (type %s) which the rules do not allow in %s (%s)", m.StringUci(), m.MoveType().String(), b.FEN(), how), mk())
		}
	}
	for k, m := range want {
		if seen[k] == 0 {
			ok = false
			rep.Viol("movegen:missing:"+moveClass(b, m), fmt.Sprintf("engine misses legal move %s in %s (%s)", m.UCI(), b.FEN(), how), mk())
		}
	}
	s.features(b, ref)
	return ref, ok
}

func (s *c01state) features(b *rc.Board, legal []rc.Move) {
	rep := s.c.Rep
	inCheck := b.InCheck(b.White)
	if inCheck {
		rep.Inc("in_check_nodes")
		k := b.KingSq(b.White)
		if len(b.Attackers(k, !b.White)) >= 2 {
			rep.Inc("double_check")
		}
	}
	legalSet := map[uint32]bool{}
	for _, m := range legal {
		legalSet[rcKey(m)] = true
		switch m.Kind {
		case rc.EnPassant:
			rep.Inc("ep_legal")
			if inCheck {
				rep.Inc("ep_legal_while_in_check")
			}
		case rc.Castling:
			rep.Inc("castle_legal")
			if rc.File(m.To) == 2 {
				bsq := 1
				if !b.White {
					bsq = 57
				}
				if b.IsAttacked(bsq, !b.White) {
					rep.Inc("castle_allowed_bfile_attacked")
				}
			}
		case rc.Promotion:
			rep.Inc("promo_moves")
			if b.Sq[m.To] != 0 {
				rep.Inc("promo_capture")
			}
			if inCheck && m.Promo != 'q' {
				rep.Inc("underpromo_evasion")
			}
		}
	}
	for _, m := range b.PseudoLegal() {
		if legalSet[rcKey(m)] {
			continue
		}
		switch m.Kind {
		case rc.EnPassant:
			rep.Inc("ep_illegal_pseudo")
			// classify: would the king be attacked along the rank after both pawns vanish?
			k := b.KingSq(b.White)
			if rc.Rank(k) == rc.Rank(m.From) {
				rep.Inc("ep_illegal_king_on_capture_rank")
			}
		case rc.Castling:
			mid := (m.From + m.To) / 2
			switch {
			case inCheck:
				rep.Inc("castle_refused_in_check")
			case b.IsAttacked(mid, !b.White):
				rep.Inc("castle_refused_transit")
			default:
				rep.Inc("castle_refused_target")
			}
		default:
			rep.Inc("pseudo_illegal_other")
		}
	}
	// castling right present but path blocked
	if b.White && (b.Castle[0] || b.Castle[1]) || !b.White && (b.Castle[2] || b.Castle[3]) {
		rep.Inc("nodes_with_castling_right")
	}
}

func c01(c *Ctx) {
	s := &c01state{c: c, mg: movegen.NewMoveGen()}
	rep := c.Rep

	// (a) corpus: each position both as reached by play and as set up from its FEN
	nPlay := c.Size(400, 40000)
	nSynth := c.Size(3000, 300000)
	nSample := 0
	forEachGame(c, "c01", nPlay, 90, nSynth, func(g Game) {
		p := engPos(g.Start.FEN())
		s.compareNode(p, g.Start, "from-fen", map[string]interface{}{"kind": g.Kind})
		rep.Inc("from_fen_nodes")
		for i, st := range g.Steps {
			p.DoMove(toEng(st.Move))
			ctx := map[string]interface{}{"start": g.Start.FEN(), "moves": stepMoves(g.Steps, i+1)}
			s.compareNode(p, st.After, "by-play", ctx)
			rep.Inc("by_play_nodes")
			if i%4 == 3 || st.After.Ep >= 0 {
				s.compareNode(engPos(st.After.FEN()), st.After, "from-fen", ctx)
				rep.Inc("from_fen_nodes")
			}
		}
		if nSample < 2 && len(g.Steps) > 3 {
			nSample++
			rep.Sample(map[string]interface{}{"start": g.Start.FEN(), "moves": stepMoves(g.Steps, 8), "reached": g.Steps[len(g.Steps)-1].After.FEN()})
		}
	})

	// (b) full-width trees walked with the engine's own do/undo
	roots := corpusRoots()
	depth := c.Size(2, 3)
	budget := c.Size(25000, 6000000) // nodes per shard
	var walk func(p *position.Position, b *rc.Board, d int, path []string)
	walk = func(p *position.Position, b *rc.Board, d int, path []string) {
		if budget <= 0 {
			return
		}
		budget--
		ref, ok := s.compareNode(p, b, "tree", map[string]interface{}{"path": path})
		rep.Inc("tree_nodes")
		if d == 0 || !ok {
			return
		}
		for _, m := range ref {
			p.DoMove(toEng(m))
			walk(p, b.Apply(m), d-1, append(path, m.UCI()))
			p.UndoMove()
		}
	}
	for i, fen := range roots {
		if !c.Mine(i) {
			continue
		}
		b := rc.MustFEN(fen)
		walk(engPos(fen), b, depth, []string{fen})
	}
	// trees from random playout positions
	nTree := c.Size(64, 8000)
	for i := 0; i < nTree; i++ {
		if !c.Mine(i) {
			continue
		}
		r := SubRng(c.Seed, "c01/tree", i)
		b0 := rc.MustFEN(roots[r.Intn(len(roots))])
		steps := playout(r, b0, 1+r.Intn(40), defaultBias)
		p := engPos(b0.FEN())
		b := b0
		var path []string
		path = append(path, b0.FEN())
		for _, st := range steps {
			p.DoMove(toEng(st.Move))
			b = st.After
			path = append(path, st.Move.UCI())
		}
		walk(p, b, 2, path)
	}

	// (c) perft totals through the engine's own perft driver, both generator modes
	pd := c.Size(3, 4)
	for i, fen := range roots {
		if !c.Mine(i) {
			continue
		}
		if i >= c.Size(120, 1000) {
			break
		}
		b := rc.MustFEN(fen)
		d := pd
		if len(b.Legal()) > 30 && !c.Thorough() {
			d = 2
		}
		want := b.Perft(d)
		for _, od := range []bool{false, true} {
			perftOne(rep, fen, d, od, want)
		}
	}
	// (d) deeper perft on promotion-heavy positions: consecutive nodes of one depth are the
	// same position there (promotion with check to Q and R, both only answered by capturing
	// the new piece), which the per-depth generators of the perft driver have to cope with.
	for i, pe := range perftExtra {
		if !c.Mine(i) {
			continue
		}
		want := rc.MustFEN(pe.fen).Perft(pe.depth)
		for _, od := range []bool{false, true} {
			perftOne(rep, pe.fen, pe.depth, od, want)
		}
	}
}

var perftExtra = []struct {
	fen   string
	depth int
}{
	{"r3k2r/1ppn3p/2q1q1n1/4P3/2q1Pp2/6R1/pbp2PPP/R5K1 b kq - 1 1", 3},
	{"r3k2r/1ppn3p/2q1q1n1/4P3/2q1Pp2/6R1/pbp2PPP/1R4K1 w kq - 0 1", 4},
	{"n1n5/PPPk4/8/8/8/8/4Kppp/5N1N b - - 0 1", 4},
	{"n1n5/PPPk4/8/8/8/8/4Kppp/5N1N w - - 0 1", 4},
	{"8/Pk6/8/8/8/8/6Kp/8 w - - 0 1", 5},
	{"r3k2r/p1ppqpb1/bn2pnp1/3PN3/1p2P3/2N2Q1p/PPPBBPPP/R3K2R w KQkq - 0 1", 3},
	{"rnbq1k1r/pp1Pbppp/2p5/8/2B5/8/PPP1NnPP/RNBQK2R w KQ - 1 8", 3},
	{"r3k2r/Pppp1ppp/1b3nbN/nP6/BBP1P3/q4N2/Pp1P2PP/R2Q1RK1 w kq - 0 1", 4},
	{"4k3/8/8/8/8/8/1p4PP/R5K1 b - - 0 1", 4},
	{"6k1/5ppp/8/8/8/8/1P6/r3K3 w - - 0 1", 5},
}

func perftOne(rep *Rep, fen string, d int, od bool, want uint64) {
	rep.Note(fmt.Sprintf("perft %s d=%d od=%v", fen, d, od))
	pf := movegen.NewPerft()
	pf.StartPerft(fen, d, od)
	rep.Inc("perft_compared")
	rep.Eval(1)
	// a position without legal moves yields result 0 and the driver then
	// reports "stopped" leaving Nodes at 0 -- equal to the rule count 0.
	if pf.Nodes != want {
		rep.Viol(fmt.Sprintf("perft:nodes:od=%v", od), fmt.Sprintf("perft(%s, depth %d, onDemand=%v) = %d, rules give %d", fen, d, od, pf.Nodes, want),
			map[string]interface{}{"fen": fen, "depth": d, "ondemand": od, "engine": pf.Nodes, "refchess": want})
	}
}

func selftest() int {
	silenceEngine()
	bad := 0
	for _, f := range curatedFENs {
		b, err := rc.ParseFEN(f)
		if err != nil {
			fmt.Fprintln(realStdout, "selftest: cannot parse", f, err)
			bad++
			continue
		}
		if err := b.Validate(); err != nil {
			fmt.Fprintln(realStdout, "selftest: invalid curated position", f, err)
			bad++
		}
		if !epConsistent(b) || !castleConsistent(b) {
			fmt.Fprintln(realStdout, "selftest: inconsistent ep/castling", f)
			bad++
		}
		if b.FEN() != f {
			fmt.Fprintln(realStdout, "selftest: fen does not round-trip in refchess", f, b.FEN())
			bad++
		}
	}
	for _, f := range append(append(append([]string{}, c07Positions...), c10Starts...), c06MateEndings...) {
		b, err := rc.ParseFEN(f)
		if err != nil || b.Validate() != nil || !epConsistent(b) || !castleConsistent(b) {
			fmt.Fprintln(realStdout, "selftest: invalid extra position", f)
			bad++
		}
	}
	for _, f := range manyQueens {
		if b, err := rc.ParseFEN(f); err != nil || b.Validate() != nil || len(b.Legal()) < 64 {
			fmt.Fprintln(realStdout, "selftest: many-queens position must be legal with 64+ moves:", f)
			bad++
		}
	}
	for _, f := range c08Hemmed {
		if b, err := rc.ParseFEN(f); err != nil || b.Validate() != nil || len(b.Legal()) != 0 {
			fmt.Fprintln(realStdout, "selftest: hemmed-in position must be legal and without legal moves:", f)
			bad++
		}
	}
	if b, err := rc.ParseFEN(lcSingleMoveRoot); err != nil || b.Validate() != nil || len(b.Legal()) != 1 {
		fmt.Fprintln(realStdout, "selftest: lcSingleMoveRoot must have exactly one legal move")
		bad++
	}
	for _, pe := range perftExtra {
		b, err := rc.ParseFEN(pe.fen)
		if err != nil || b.Validate() != nil || !epConsistent(b) || !castleConsistent(b) {
			fmt.Fprintln(realStdout, "selftest: invalid perft position", pe.fen)
			bad++
		}
	}
	perft := []struct {
		fen string
		d   int
		n   uint64
	}{
		{rc.StartFEN, 4, 197281},
		{"r3k2r/p1ppqpb1/bn2pnp1/3PN3/1p2P3/2N2Q1p/PPPBBPPP/R3K2R w KQkq - 0 1", 3, 97862},
		{"8/2p5/3p4/KP5r/1R3p1k/8/4P1P1/8 w - - 0 1", 5, 674624},
		{"r3k2r/Pppp1ppp/1b3nbN/nP6/BBP1P3/q4N2/Pp1P2PP/R2Q1RK1 w kq - 0 1", 4, 422333},
		{"rnbq1k1r/pp1Pbppp/2p5/8/2B5/8/PPP1NnPP/RNBQK2R w KQ - 1 8", 3, 62379},
		{"r4rk1/1pp1qppp/p1np1n2/2b1p1B1/2B1P1b1/P1NP1N2/1PP1QPPP/R4RK1 w - - 0 10", 3, 89890},
	}
	for _, pc := range perft {
		if got := rc.MustFEN(pc.fen).Perft(pc.d); got != pc.n {
			fmt.Fprintf(realStdout, "selftest: refchess perft %s d%d = %d want %d\n", pc.fen, pc.d, got, pc.n)
			bad++
		}
	}
	if len(loadRepoFens()) < 300 {
		fmt.Fprintln(realStdout, "selftest: repo fen corpus missing")
		bad++
	}
	if bad > 0 {
		fmt.Fprintln(realStdout, "SELFTEST FAILED")
		return 2
	}
	fmt.Fprintf(realStdout, "selftest ok: %d curated positions, %d repo positions, refchess perft gate passed\n", len(curatedFENs), len(loadRepoFens()))
	return 0
}
