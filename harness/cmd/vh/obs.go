package main

import (
	"fmt"

	"github.com/frankkopp/FrankyGo/internal/evaluator"
	"github.com/frankkopp/FrankyGo/internal/position"
	"github.com/frankkopp/FrankyGo/internal/types"
)

// Obs is the set of public observables of a position (property C03/C04/C15/C16).
type Obs struct {
	Fen       string
	Key       uint64
	Pieces    [2][7]uint64
	Occ       [2]uint64
	King      [2]int
	Mat       [2]int
	MatNP     [2]int
	PsqMid    [2]int
	PsqEnd    [2]int
	GamePhase int
	HasCheck  bool
	LastMove  uint32
	LastCap   int
	Rep       [3]bool
	Eval      int
	HasEval   bool
	Insuff    bool
}

func snapshot(p *position.Position, ev *evaluator.Evaluator, history bool) Obs {
	var o Obs
	o.Fen = p.StringFen()
	o.Key = uint64(p.ZobristKey())
	for c := types.White; c <= types.Black; c++ {
		for pt := types.King; pt <= types.Queen; pt++ {
			o.Pieces[c][pt] = uint64(p.PiecesBb(c, pt))
		}
		o.Occ[c] = uint64(p.OccupiedBb(c))
		o.King[c] = int(p.KingSquare(c))
		o.Mat[c] = int(p.Material(c))
		o.MatNP[c] = int(p.MaterialNonPawn(c))
		o.PsqMid[c] = int(p.PsqMidValue(c))
		o.PsqEnd[c] = int(p.PsqEndValue(c))
	}
	o.GamePhase = p.GamePhase()
	o.HasCheck = p.HasCheck()
	o.Insuff = p.HasInsufficientMaterial()
	if history {
		o.LastMove = uint32(p.LastMove())
		o.LastCap = int(p.LastCapturedPiece())
		for i := 0; i < 3; i++ {
			o.Rep[i] = p.CheckRepetitions(i + 1)
		}
	}
	if ev != nil {
		o.Eval = int(ev.Evaluate(p))
		o.HasEval = true
	}
	return o
}

// Diff lists the observables in which a and b differ.
func (a Obs) Diff(b Obs) []string {
	var d []string
	add := func(name string, x, y interface{}) {
		d = append(d, fmt.Sprintf("%s: %v != %v", name, x, y))
	}
	if a.Fen != b.Fen {
		add("Fen", a.Fen, b.Fen)
	}
	if a.Key != b.Key {
		add("ZobristKey", a.Key, b.Key)
	}
	if a.Pieces != b.Pieces {
		add("PiecesBb", a.Pieces, b.Pieces)
	}
	if a.Occ != b.Occ {
		add("OccupiedBb", a.Occ, b.Occ)
	}
	if a.King != b.King {
		add("KingSquare", a.King, b.King)
	}
	if a.Mat != b.Mat {
		add("Material", a.Mat, b.Mat)
	}
	if a.MatNP != b.MatNP {
		add("MaterialNonPawn", a.MatNP, b.MatNP)
	}
	if a.PsqMid != b.PsqMid {
		add("PsqMidValue", a.PsqMid, b.PsqMid)
	}
	if a.PsqEnd != b.PsqEnd {
		add("PsqEndValue", a.PsqEnd, b.PsqEnd)
	}
	if a.GamePhase != b.GamePhase {
		add("GamePhase", a.GamePhase, b.GamePhase)
	}
	if a.HasCheck != b.HasCheck {
		add("HasCheck", a.HasCheck, b.HasCheck)
	}
	if a.Insuff != b.Insuff {
		add("HasInsufficientMaterial", a.Insuff, b.Insuff)
	}
	if a.LastMove != b.LastMove {
		add("LastMove", a.LastMove, b.LastMove)
	}
	if a.LastCap != b.LastCap {
		add("LastCapturedPiece", a.LastCap, b.LastCap)
	}
	if a.Rep != b.Rep {
		add("CheckRepetitions", a.Rep, b.Rep)
	}
	if a.HasEval && b.HasEval && a.Eval != b.Eval {
		add("Evaluate", a.Eval, b.Eval)
	}
	return d
}

// firstField returns the name part of a Diff entry.
func firstField(d string) string {
	for i := 0; i < len(d); i++ {
		if d[i] == ':' {
			return d[:i]
		}
	}
	return d
}

// diffFields returns one entry per differing observable.  A differing Evaluate
// is not reported separately when GamePhase differs too (the evaluation
// interpolates by game phase, so it is the same finding).
func diffFields(d []string) []string {
	gp := false
	for _, f := range d {
		if firstField(f) == "GamePhase" {
			gp = true
		}
	}
	var r []string
	for _, f := range d {
		if gp && firstField(f) == "Evaluate" {
			continue
		}
		r = append(r, f)
	}
	return r
}

// phaseSum is the unclamped sum of the published game-phase values over the
// pieces on the board (N,B=1, R=2, Q=4).
func phaseSum(p *position.Position) int {
	n := 0
	for c := types.White; c <= types.Black; c++ {
		for pt := types.Knight; pt <= types.Queen; pt++ {
			n += p.PiecesBb(c, pt).PopCount() * pt.GamePhaseValue()
		}
	}
	return n
}

// over24Tag qualifies a GamePhase-related finding: the known clamp defect (D1)
// can only show once the unclamped phase sum exceeded 24 somewhere in the
// history of the position object.
func over24Tag(field string, over24 bool) string {
	if field != "GamePhase" && field != "Evaluate" {
		return ""
	}
	if over24 {
		return ":phase-sum-exceeded-24"
	}
	return ":phase-sum-within-24"
}
