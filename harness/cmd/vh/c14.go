package main

import (
	"sync/atomic"
	"runtime"
	"fmt"
	"sort"
	"strings"
	"sync"
	"time"

	"github.com/anishathalye/porcupine"

	"github.com/frankkopp/FrankyGo/internal/movegen"
	"github.com/frankkopp/FrankyGo/internal/position"
	"github.com/frankkopp/FrankyGo/internal/search"
	"github.com/frankkopp/FrankyGo/internal/types"
	rc "github.com/frankkopp/FrankyGo/verifh/refchess"
)

func init() {
	register(&CheckSpec{
		ID: "C14", Fn: c14, Race: true,
		Rule:        "one evaluation = one lifecycle call (StartSearch depth/nodes/movetime/infinite/ponder, StopSearch, WaitWhileSearching, IsSearching, PonderHit, NewGame, ClearHash, ResizeCache, IsReady, start-while-running) issued by one controller goroutine in generated histories of 5-30 calls incl. restarts inside the timer's 5 ms poll window; sub-monitors: (1) Go race detector on half of the shards (hooks nil there) incl. UCI sessions with isready during search, (2) per-call watchdog whose expiry is classified from an in-process goroutine dump (deadlock only if every engine goroutine is parked on a sync primitive), (3) on the other shards the lifecycle trace (verif hook + our UciDriver, one monotonic clock, seeded delays of 0/1/6 ms at the hook's delay points) checked offline: exactly one result per accepted start, none for rejected ones, result legal in its own root, depth searches complete unless a stop was requested during their lifetime, infinite/ponder results only after a stop/ponderhit of their own lifetime, timers fire only while their own search runs; plus porcupine linearizability of the history against the sequential lifecycle model of DESIGN Appendix B; distinct = distinct lifecycle-event interleavings (hash of the event order)",
		Assumptions: []string{"accepted/rejected is read from the trace", "porcupine timeout 60 s per history = inconclusive", "race reports are de-duplicated by the pair of innermost FrankyGo functions"},
		Required:    []string{"histories", "calls", "starts_accepted", "starts_rejected", "results", "stops_while_running", "restarts_within_poll_window", "porcupine_ok", "timer_starts", "timers_exit_early", "timers_fired", "race_histories", "race_uci_sessions", "delay_points_hit"},
		MinEvals:    2000,
		TimeoutQ:    25 * 60e9,
		TimeoutT:    150 * 60e9,
	})
}

// ---------------------------------------------------------------------------
// sequential lifecycle model (DESIGN Appendix B)

type lcState struct {
	Running bool
	ID      int
	Sent    bool
}

type lcIn struct {
	Op string // start, result, issearching, stop, wait, newgame, other
	ID int
}

var lcModel = porcupine.NondeterministicModel{
	Init: func() []interface{} { return []interface{}{lcState{}} },
	Step: func(state, input, output interface{}) []interface{} {
		st := state.(lcState)
		in := input.(lcIn)
		pre := []lcState{st}
		if st.Running && st.Sent {
			pre = append(pre, lcState{}) // silent step: the search goroutine released the running semaphore
		}
		var res []interface{}
		for _, p := range pre {
			switch in.Op {
			case "start":
				if output.(bool) { // accepted
					if !p.Running {
						res = append(res, lcState{true, in.ID, false})
					}
				} else if p.Running {
					res = append(res, p)
				}
			case "result":
				if p.Running && p.ID == in.ID && !p.Sent {
					res = append(res, lcState{true, in.ID, true})
				}
			case "issearching":
				if output.(bool) == p.Running {
					res = append(res, p)
				}
			case "stop", "wait", "newgame":
				if !p.Running {
					res = append(res, p)
				}
			default:
				res = append(res, p)
			}
		}
		return res
	},
	DescribeOperation: func(input, output interface{}) string { return fmt.Sprintf("%+v -> %v", input, output) },
}

// ---------------------------------------------------------------------------

type lcEvent struct {
	T    int64
	Kind string // trace event name, "result", "call:<op>", "ret:<op>"
	A, B int64
	Txt  string
}

type lcRecorder struct {
	mu  sync.Mutex
	t0  time.Time
	evs []lcEvent
}

func (r *lcRecorder) add(kind string, a, b int64, txt string) int64 {
	r.mu.Lock()
	t := int64(time.Since(r.t0))
	r.evs = append(r.evs, lcEvent{t, kind, a, b, txt})
	r.mu.Unlock()
	return t
}

type lcRoot struct {
	fen   string
	legal map[string]bool
}

// K on h1 in check by the queen on h2 defended by the bishop: Kxh2 is impossible, Kg1?? no -
// the only legal move is found by the self-test below (panic at start-up if not exactly one).
const lcSingleMoveRoot = "6k1/8/8/8/8/5n2/6q1/7K w - - 0 1"
const lcSingleRootIdx = 4

var lcRoots = func() []lcRoot {
	var rs []lcRoot
	for _, f := range []string{
		rc.StartFEN,
		"rnbqkbnr/pppppppp/8/8/4P3/8/PPPP1PPP/RNBQKBNR b KQkq e3 0 1",
		"8/2p5/3p4/KP5r/1R3p1k/8/4P1P1/8 w - - 0 1",
		"r3k2r/p1ppqpb1/bn2pnp1/3PN3/1p2P3/2N2Q1p/PPPBBPPP/R3K2R b KQkq - 0 1",
		lcSingleMoveRoot, // exactly one legal move: any search of it ends at once by itself
	} {
		b := rc.MustFEN(f)
		m := map[string]bool{}
		for _, mv := range b.Legal() {
			m[toEng(mv).StringUci()] = true
		}
		rs = append(rs, lcRoot{f, m})
	}
	return rs
}()

type lcStart struct {
	id       int
	mode     string
	depth    int
	root     int
	accepted bool
	known    bool
	callT    int64
	retT     int64
}

func withWatchdog(timeout time.Duration, f func()) bool {
	done := make(chan struct{})
	go func() { f(); close(done) }()
	select {
	case <-done:
		return true
	case <-time.After(timeout):
		return false
	}
}

var spinSink int64
var meetFlag, meetHold int32

func c14(c *Ctx) {
	if c.Race {
		c14race(c)
		return
	}
	rep := c.Rep
	nHist := c.Size(400, 20000)
	origProcs := runtime.GOMAXPROCS(0)
	defer runtime.GOMAXPROCS(origProcs)
	delays := []time.Duration{0, 0, 0, time.Millisecond, 6 * time.Millisecond}
	deadlocks := 0
	for h := 0; h < nHist; h++ {
		if !c.Mine(h) {
			continue
		}
		if deadlocks >= 3 {
			// three proven deadlocks in this process: every further history costs a
			// full watchdog period and proves nothing new
			rep.Inc("histories_skipped_after_3_deadlocks")
			continue
		}
		r := SubRng(c.Seed, "c14/hist", h)
		pr := SubRng(c.Seed, "c14/points", h)
		rec := &lcRecorder{t0: time.Now()}
		var pmu sync.Mutex
		search.VerifTraceHook = func(ev string, a, b int64) { rec.add(ev, a, b, "") }
		noDelays := false
		var meetMu sync.Mutex
		var meetCh chan struct{}
		pr2 := SubRng(c.Seed, "c14/meet", h)
		search.VerifPointHook = func(name string) {
			if name == "timer-before-fire" {
				// rendezvous: a controller waiting for this moment issues its stop right now
				meetMu.Lock()
				ch := meetCh
				meetCh = nil
				meetMu.Unlock()
				if ch != nil {
					atomic.StoreInt32(&meetFlag, 1) // a controller spinning on this flag goes at once
					close(ch)
					if atomic.LoadInt32(&meetHold) == 1 {
						// hold the timer between its last check and its fire: meanwhile the
						// controller stops this search and starts the next one
						time.Sleep(time.Duration(1+pr2.Intn(3)) * time.Millisecond)
						return
					}
					// vary the alignment of the two stop requests on the scale of nanoseconds
					for i, n := 0, pr2.Intn(400); i < n; i++ {
						spinSink++
					}
					return
				}
			}
			pmu.Lock()
			d := delays[pr.Intn(len(delays))]
			pmu.Unlock()
			if noDelays {
				// single-processor histories: the order in which the one processor runs the
				// goroutines is the schedule under test; a sleeping hook would hand the
				// processor to the late starters and hide exactly that
				d = 0
			}
			rec.add("point:"+name, int64(d), 0, "")
			if d > 0 {
				time.Sleep(d)
			}
		}
		restoreSearchCfg()
		s, drv := newSearch(2)
		drv.OnResult = func(best, ponder types.Move) { rec.add("result", 0, 0, best.StringUci()) }
		rep.Begin(fmt.Sprintf("lifecycle history %d", h))
		rep.Inc("histories")
		forceRoot := -1
		noDelays = (h/16)%3 == 1
		if (h/16)%3 == 1 {
			// one processor only: goroutines the engine starts (search, timers) queue behind
			// whoever runs, so they begin late - after their search has ended, or after the
			// next one has begun
			runtime.GOMAXPROCS(1)
			rep.Inc("histories_single_processor")
		} else {
			runtime.GOMAXPROCS(origProcs)
		}
		var starts []*lcStart
		var ops []string
		blocked := false
		runningMode := ""
		call := func(name string, f func()) bool {
			rep.Eval(1)
			rep.Inc("calls")
			ops = append(ops, name)
			// searches entered / results sent before this call (trace events so far)
			rec.mu.Lock()
			enters, sends := 0, 0
			for _, e := range rec.evs {
				switch e.Kind {
				case "run-enter":
					enters++
				case "result-send":
					sends++
				}
			}
			callIdx := len(rec.evs)
			rec.mu.Unlock()
			rec.add("call:"+name, 0, 0, "")
			done := make(chan struct{})
			go func() { f(); close(done) }()
			ok := true
			select {
			case <-done:
			case <-time.After(20 * time.Second):
				ok = false
			}
			rec.add("ret:"+name, 0, 0, "")
			if !ok && strings.HasPrefix(name, "start#") && enters > sends {
				// a start issued while a search was running (entered, result not yet sent) has
				// been blocking the controller for 20 s.  Is it the running search it waits
				// for?  End that search from here: if the call comes back only now, the start
				// was neither rejected nor non-blocking (decided by this causal order, not by
				// the 20 s).
				go s.StopSearch()
				select {
				case <-done:
					rec.mu.Lock()
					rejected, entered := false, false
					for _, e := range rec.evs[callIdx:] {
						switch e.Kind {
						case "run-rejected":
							rejected = true
						case "run-enter":
							entered = true
						}
					}
					rec.mu.Unlock()
					rep.Viol("start-while-running:blocks-controller-until-search-ends", fmt.Sprintf("%s was issued while a search was running; it did not return for 20 s and came back only after that search was stopped from outside (rejected afterwards: %v, ran as a search of its own: %v); history %v", name, rejected, entered, ops), map[string]interface{}{"history": h, "ops": ops})
					deadlocks++
					blocked = true
					s.StopSearch()
					return false
				case <-time.After(30 * time.Second):
				}
			}
			if !ok && name == "stop" && enters > sends {
				// StopSearch has been blocking for 20 s while a search runs.  Ask again from
				// another goroutine: if that ends the search and releases the first call, the
				// first stop request was lost (decided by this causal order, not by the 20 s).
				go s.StopSearch()
				select {
				case <-done:
					rep.Viol("stop:request-lost", fmt.Sprintf("StopSearch was called while a search was running, did not return for 20 s, and returned only after a second stop request was made from another goroutine; history %v", ops), map[string]interface{}{"history": h, "ops": ops})
					deadlocks++
					blocked = true
					return false
				case <-time.After(30 * time.Second):
				}
			}
			if !ok {
				dl, sig := provenDeadlock()
				payload := map[string]interface{}{"history": h, "ops": ops}
				opk := strings.Fields(name)[0]
				if i := strings.Index(opk, "#"); i > 0 {
					opk = opk[:i]
				}
				deadlocks++
				if dl {
					rep.Viol("blocked:"+opk+":deadlock:"+sig, fmt.Sprintf("lifecycle call %s does not return; goroutine dump proves a deadlock (%s); history %v", name, sig, ops), payload)
				} else {
					rep.Inconclusive(fmt.Sprintf("history %d: call %s did not return within 20 s (%s)", h, name, sig))
				}
				blocked = true
			}
			return ok
		}
		start := func(mode string) {
			st := &lcStart{id: len(starts) + 1, mode: mode, root: r.Intn(len(lcRoots) - 1)}
			if forceRoot >= 0 {
				st.root = forceRoot
			}
			var lim search.Limits
			switch mode {
			case "depth":
				st.depth = 1 + r.Intn(4)
				lim = search.Limits{Depth: st.depth}
			case "nodes":
				lim = search.Limits{Nodes: uint64(100 + r.Intn(20000))}
			case "movetime":
				lim = search.Limits{TimeControl: true, MoveTime: time.Duration(5+r.Intn(40)) * time.Millisecond}
			case "longtime":
				lim = search.Limits{TimeControl: true, MoveTime: time.Duration(3+r.Intn(8)) * time.Second}
			case "infinite":
				lim = search.Limits{Infinite: true}
			case "ponder":
				lim = search.Limits{Ponder: true, TimeControl: true, WhiteTime: 500 * time.Millisecond, BlackTime: 500 * time.Millisecond}
			}
			p, _ := position.NewPositionFen(lcRoots[st.root].fen)
			starts = append(starts, st)
			name := fmt.Sprintf("start#%d %s root%d", st.id, mode, st.root)
			call(name, func() { s.StartSearch(*p, lim) })
			// accepted or rejected? (the trace says so by the time StartSearch returns)
			rec.mu.Lock()
			for i := len(rec.evs) - 1; i >= 0; i-- {
				if rec.evs[i].Kind == "run-enter" {
					runningMode = mode
					break
				}
				if rec.evs[i].Kind == "run-rejected" || strings.HasPrefix(rec.evs[i].Kind, "call:start#") {
					break
				}
			}
			rec.mu.Unlock()
		}
		nCalls := 5 + r.Intn(26)
		for k := 0; k < nCalls && !blocked; k++ {
			switch x := r.Intn(100); {
			case x < 30:
				start([]string{"depth", "depth", "nodes", "movetime", "infinite", "infinite", "ponder", "longtime"}[r.Intn(8)])
			case x < 45:
				call("stop", func() { s.StopSearch() })
			case x < 52:
				// only wait when the running search ends by itself
				if len(starts) > 0 {
					m := runningMode
					if m == "infinite" || m == "ponder" || m == "longtime" || m == "nodes" {
						call("stop", func() { s.StopSearch() })
						continue
					}
				}
				call("wait", func() { s.WaitWhileSearching() })
			case x < 65:
				call("issearching", func() {
					v := s.IsSearching()
					rec.add("issearching-value", map[bool]int64{false: 0, true: 1}[v], 0, "")
				})
			case x < 70:
				call("ponderhit", func() { s.PonderHit() })
			case x < 74:
				call("newgame", func() { s.NewGame() })
			case x < 78:
				call("clearhash", func() { s.ClearHash() })
			case x < 81:
				call("resizecache", func() { s.ResizeCache() })
			case x < 86:
				call("isready", func() { s.IsReady() })
			case x < 93:
				// restart inside the poll window of the previous search's timer
				start("longtime")
				if blocked {
					break
				}
				time.Sleep(time.Duration(r.Intn(12000)) * time.Microsecond)
				call("stop", func() { s.StopSearch() })
				if blocked {
					break
				}
				start("infinite")
				rep.Inc("restarts_within_poll_window")
				time.Sleep(time.Duration(20+r.Intn(60)) * time.Millisecond)
				call("issearching", func() {
					v := s.IsSearching()
					rec.add("issearching-value", map[bool]int64{false: 0, true: 1}[v], 0, "")
				})
				call("stop", func() { s.StopSearch() })
			case x < 95:
				// a stop request issued in the very moment the search's own timer fires
				call("stop", func() { s.StopSearch() })
				if blocked {
					break
				}
				ch := make(chan struct{})
				meetMu.Lock()
				meetCh = ch
				meetMu.Unlock()
				start("movetime")
				if blocked {
					break
				}
				select {
				case <-ch:
					rep.Inc("stop_meets_timer_fire")
				case <-time.After(2 * time.Second):
				}
				call("stop", func() { s.StopSearch() })
				meetMu.Lock()
				meetCh = nil
				meetMu.Unlock()
			case x < 97:
				// a timed search that ends at once by itself (single legal move), directly
				// followed by a search without a timer of its own: the first one's timer
				// goroutine may only start now and must leave the second search alone
				call("stop", func() { s.StopSearch() })
				if blocked {
					break
				}
				forceRoot = lcSingleRootIdx
				start([]string{"movetime", "longtime"}[r.Intn(2)])
				forceRoot = -1
				if blocked {
					break
				}
				start([]string{"infinite", "ponder"}[r.Intn(2)])
				rep.Inc("untimed_right_after_instant_timed")
				time.Sleep(time.Duration(10+r.Intn(50)) * time.Millisecond)
				call("issearching", func() {
					v := s.IsSearching()
					rec.add("issearching-value", map[bool]int64{false: 0, true: 1}[v], 0, "")
				})
				call("stop", func() { s.StopSearch() })
			default:
				time.Sleep(time.Duration(r.Intn(8000)) * time.Microsecond)
			}
		}
		if !blocked && (h/16)%3 == 1 {
			// single-processor history: several times a timed search that ends at once by itself,
			// directly followed by a search without a timer of its own
			for t := 0; t < 6 && !blocked; t++ {
				call("stop", func() { s.StopSearch() })
				if blocked {
					break
				}
				forceRoot = lcSingleRootIdx
				start([]string{"movetime", "longtime"}[r.Intn(2)])
				forceRoot = -1
				if blocked {
					break
				}
				start([]string{"infinite", "ponder"}[r.Intn(2)])
				rep.Inc("untimed_right_after_instant_timed")
				time.Sleep(time.Duration(10+r.Intn(40)) * time.Millisecond)
				call("issearching", func() {
					v := s.IsSearching()
					rec.add("issearching-value", map[bool]int64{false: 0, true: 1}[v], 0, "")
				})
				call("stop", func() { s.StopSearch() })
			}
		}
		if !blocked && (h/16)%2 == 1 {
			// a burst of stop requests that meet the firing timer
			for t := 0; t < c.Size(12, 30) && !blocked; t++ {
				ch := make(chan struct{})
				atomic.StoreInt32(&meetFlag, 0)
				hold := t%2 == 1
				atomic.StoreInt32(&meetHold, map[bool]int32{false: 0, true: 1}[hold])
				meetMu.Lock()
				meetCh = ch
				meetMu.Unlock()
				forceRoot = r.Intn(len(lcRoots) - 1)
				start("movetime")
				forceRoot = -1
				if blocked {
					break
				}
				// busy-wait for the timer (no scheduler wake-up in between), then stop at once:
				// the call is made directly, without the bookkeeping of call()
				t0 := time.Now()
				for k := 0; atomic.LoadInt32(&meetFlag) == 0; k++ {
					if k&0xFFFF == 0 && time.Since(t0) > 2*time.Second {
						break
					}
				}
				if atomic.LoadInt32(&meetFlag) == 1 {
					rep.Inc("stop_meets_timer_fire")
					for i, n := 0, r.Intn(400); i < n; i++ {
						spinSink++
					}
					s.StopSearch()
				}
				select {
				case <-ch:
				default:
				}
				call("stop", func() { s.StopSearch() })
				if hold && !blocked {
					// the old timer is still held before its fire: the next search must not
					// be touched by it
					start([]string{"infinite", "depth"}[r.Intn(2)])
					rep.Inc("next_search_started_while_old_timer_held")
					time.Sleep(6 * time.Millisecond)
					if !blocked {
						call("issearching", func() {
							v := s.IsSearching()
							rec.add("issearching-value", map[bool]int64{false: 0, true: 1}[v], 0, "")
						})
						call("stop", func() { s.StopSearch() })
					}
				}
				atomic.StoreInt32(&meetHold, 0)
				meetMu.Lock()
				meetCh = nil
				meetMu.Unlock()
			}
		}
		if !blocked {
			call("stop", func() { s.StopSearch() })
		}
		time.Sleep(8 * time.Millisecond) // let timer goroutines notice the end
		search.VerifTraceHook = nil
		search.VerifPointHook = nil
		if blocked {
			continue
		}
		c14judge(rep, h, rec, starts, ops)
		if h < 2 {
			rep.Sample(map[string]interface{}{"history": h, "calls": ops})
		}
	}
}

// c14judge runs the offline checkers over one recorded history.
func c14judge(rep *Rep, h int, rec *lcRecorder, starts []*lcStart, ops []string) {
	rec.mu.Lock()
	evs := append([]lcEvent(nil), rec.evs...)
	rec.mu.Unlock()
	sort.SliceStable(evs, func(i, j int) bool { return evs[i].T < evs[j].T })
	payload := func() map[string]interface{} {
		var tr []string
		for _, e := range evs {
			if strings.HasPrefix(e.Kind, "point:") && e.A == 0 {
				continue
			}
			tr = append(tr, fmt.Sprintf("%.3fms %s %d %d %s", float64(e.T)/1e6, e.Kind, e.A, e.B, e.Txt))
		}
		if len(tr) > 120 {
			tr = tr[len(tr)-120:]
		}
		return map[string]interface{}{"history": h, "calls": ops, "trace_tail": tr}
	}
	// interleaving identity
	var order []string
	for _, e := range evs {
		if !strings.HasPrefix(e.Kind, "point:") {
			order = append(order, e.Kind)
		} else if e.A > 0 {
			rep.Inc("delay_points_hit")
		}
	}
	rep.DistinctStr(strings.Join(order, ","))

	// walk the trace
	si := -1          // index of the start call in progress
	running := -1     // index into starts of the running search
	resultsFor := map[int]int{}
	stopDuring := map[int]bool{}   // stop request issued while search i was running (after its start call returned or during)
	hitDuring := map[int]bool{}
	timerOwner := map[int64]int{}
	timerFiredFor := map[int]bool{}
	var hist []porcupine.Operation
	type open struct {
		name string
		t    int64
	}
	var cur *open
	var lastIsSearching int64 = -1
	for _, e := range evs {
		switch {
		case strings.HasPrefix(e.Kind, "call:"):
			cur = &open{e.Kind[5:], e.T}
			if strings.HasPrefix(cur.name, "start#") {
				si++
				starts[si].callT = e.T
			}
		case strings.HasPrefix(e.Kind, "ret:"):
			name := e.Kind[4:]
			op := strings.Fields(name)[0]
			in := lcIn{Op: "other"}
			var out interface{} = true
			switch {
			case strings.HasPrefix(op, "start#"):
				st := starts[si]
				st.retT = e.T
				if !st.known {
					rep.Viol("trace:start-without-run-event", fmt.Sprintf("StartSearch #%d returned but run() neither entered nor rejected", st.id), payload())
					return
				}
				in = lcIn{"start", st.id}
				out = st.accepted
			case op == "issearching":
				in = lcIn{Op: "issearching"}
				out = lastIsSearching == 1
			case op == "stop" || op == "wait" || op == "newgame":
				in = lcIn{Op: op}
			}
			if cur != nil {
				hist = append(hist, porcupine.Operation{ClientId: 0, Input: in, Call: cur.t, Output: out, Return: e.T})
			}
			cur = nil
		case e.Kind == "issearching-value":
			lastIsSearching = e.A // recorded inside the call, i.e. before its ret event
		case e.Kind == "run-enter":
			if si < 0 || starts[si].known {
				rep.Viol("trace:unexpected-run-enter", "run-enter without a pending start", payload())
				return
			}
			starts[si].known, starts[si].accepted = true, true
			if running >= 0 {
				rep.Viol("isolation:two-searches-running", fmt.Sprintf("search #%d entered while #%d is still running", starts[si].id, starts[running].id), payload())
			}
			running = si
			rep.Inc("starts_accepted")
		case e.Kind == "run-rejected":
			if si >= 0 && !starts[si].known {
				starts[si].known, starts[si].accepted = true, false
				rep.Inc("starts_rejected")
			}
		case e.Kind == "run-exit":
			if running >= 0 {
				if resultsFor[running] != 1 {
					rep.Viol("exactly-once:result-count", fmt.Sprintf("search #%d (%s) ended with %d results", starts[running].id, starts[running].mode, resultsFor[running]), payload())
				}
				running = -1
			}
		case e.Kind == "stop-request":
			if running >= 0 {
				stopDuring[running] = true
				rep.Inc("stops_while_running")
			}
		case e.Kind == "ponderhit-accepted":
			if running >= 0 {
				hitDuring[running] = true
			}
		case e.Kind == "timer-start":
			rep.Inc("timer_starts")
			timerOwner[e.A] = running
			if running < 0 {
				// a timer goroutine may be scheduled after its (very short) search has ended;
				// it then must exit early, which is checked at timer-fire
				timerOwner[e.A] = -2
			}
		case e.Kind == "timer-exit-early":
			rep.Inc("timers_exit_early")
		case e.Kind == "timer-fire" && e.B == 0:
			rep.Inc("timers_void_fire") // its search had ended: the attempt changes nothing
		case e.Kind == "timer-fire":
			rep.Inc("timers_fired")
			ow, ok := timerOwner[e.A]
			if !ok || ow != running || running < 0 {
				who := "no search"
				if running >= 0 {
					who = fmt.Sprintf("search #%d (%s)", starts[running].id, starts[running].mode)
				}
				own := "an already finished search"
				if ok && ow >= 0 {
					own = fmt.Sprintf("search #%d (%s)", starts[ow].id, starts[ow].mode)
				}
				rep.Viol("isolation:timer-fires-on-foreign-search", fmt.Sprintf("timer %d started for %s fires while %s is running", e.A, own, who), payload())
			} else {
				timerFiredFor[running] = true
			}
		case e.Kind == "result":
			rep.Inc("results")
			if running < 0 {
				rep.Viol("exactly-once:orphan-result", "a result was sent while no search was running: "+e.Txt, payload())
				break
			}
			st := starts[running]
			resultsFor[running]++
			hist = append(hist, porcupine.Operation{ClientId: 1, Input: lcIn{"result", st.id}, Call: e.T, Output: true, Return: e.T})
			if !lcRoots[st.root].legal[e.Txt] {
				rep.Viol("isolation:result-of-other-search", fmt.Sprintf("search #%d on root %d answered %s which is not a legal move of its root", st.id, st.root, e.Txt), payload())
			}
			switch st.mode {
			case "infinite":
				if !stopDuring[running] {
					rep.Viol("isolation:infinite-search-ended-without-own-stop", fmt.Sprintf("infinite search #%d sent its result although no stop was requested during its lifetime", st.id), payload())
				}
			case "ponder":
				if !stopDuring[running] && !(hitDuring[running] && timerFiredFor[running]) {
					rep.Viol("isolation:ponder-search-ended-without-own-stop", fmt.Sprintf("ponder search #%d sent its result without stop or ponderhit+time-out of its own", st.id), payload())
				}
			case "longtime":
				// (a root with a single legal move is answered at once: that is its own end)
				if st.root != lcSingleRootIdx && !stopDuring[running] && !timerFiredFor[running] {
					rep.Viol("isolation:timed-search-ended-early", fmt.Sprintf("search #%d (move time of seconds) ended without stop and without its own timer", st.id), payload())
				}
			}
		case e.Kind == "result-send":
			if running >= 0 && starts[running].mode == "depth" && !stopDuring[running] {
				if int(e.A) != starts[running].depth {
					rep.Viol("isolation:depth-search-ended-early", fmt.Sprintf("depth %d search #%d ended at depth %d without a stop request of its own", starts[running].depth, starts[running].id, e.A), payload())
				}
			}
		}
	}
	for i, st := range starts {
		if st.known && !st.accepted && resultsFor[i] > 0 {
			rep.Viol("exactly-once:result-for-rejected-start", fmt.Sprintf("rejected start #%d produced a result", st.id), payload())
		}
	}
	// porcupine
	res, _ := porcupine.CheckOperationsVerbose(lcModel.ToModel(), hist, 60*time.Second)
	switch res {
	case porcupine.Ok:
		rep.Inc("porcupine_ok")
	case porcupine.Illegal:
		var hs []string
		for _, o := range hist {
			hs = append(hs, fmt.Sprintf("[%d..%d] c%d %+v -> %v", o.Call/1000, o.Return/1000, o.ClientId, o.Input, o.Output))
		}
		p := payload()
		p["operations"] = hs
		rep.Viol("porcupine:not-linearizable", fmt.Sprintf("history %d is not linearizable against the sequential lifecycle model", h), p)
	default:
		rep.Inconclusive(fmt.Sprintf("history %d: porcupine timed out", h))
	}
}

// c14race: the same kind of histories without any hook (a monitor's lock would
// add happens-before edges), under the race detector; plus UCI sessions.
func c14race(c *Ctx) {
	rep := c.Rep
	if c.Shard%4 == 1 {
		c14raceUci(c)
		return
	}
	// the protocol loop creates its move generator, position and perft objects before
	// any search is started (NewUciHandler); do the same so that package level
	// loggers are initialised outside of the search goroutine as they are there
	_ = movegen.NewMoveGen()
	_ = position.NewPosition()
	// one Search object for the whole process, as in the engine: re-creating
	// searches would re-configure the shared loggers while goroutines of the
	// previous object may still log (a harness artefact, not an engine race)
	restoreSearchCfg()
	s, _ := newSearch(1)
	raceDeadlocks := 0
	nHist := c.Size(240, 8000)
	for h := 0; h < nHist; h++ {
		if !c.Mine(h) {
			continue
		}
		if raceDeadlocks >= 2 {
			rep.Inc("histories_skipped_after_deadlocks")
			continue
		}
		r := SubRng(c.Seed, "c14/racehist", h)
		rep.Begin(fmt.Sprintf("race lifecycle history %d", h))
		rep.Inc("race_histories")
		rep.Inc("histories")
		blocked := false
		call := func(name string, f func()) {
			rep.Eval(1)
			rep.Inc("calls")
			if !withWatchdog(60*time.Second, f) {
				dl, sig := provenDeadlock()
				if dl {
					raceDeadlocks++
					rep.Viol("blocked:"+name+":deadlock:"+sig, "lifecycle call "+name+" does not return (deadlock "+sig+")", nil)
				} else {
					rep.Inconclusive("race history: call " + name + " did not return within 60 s: " + sig)
				}
				blocked = true
			}
		}
		n := 5 + r.Intn(20)
		for k := 0; k < n && !blocked; k++ {
			root := lcRoots[r.Intn(len(lcRoots))]
			p, _ := position.NewPositionFen(root.fen)
			switch x := r.Intn(100); {
			case x < 35:
				var lim search.Limits
				switch r.Intn(6) {
				case 0:
					lim = search.Limits{Depth: 1 + r.Intn(3)}
				case 1:
					lim = search.Limits{Nodes: uint64(100 + r.Intn(5000))}
				case 2:
					lim = search.Limits{TimeControl: true, MoveTime: time.Duration(5+r.Intn(30)) * time.Millisecond}
				case 3:
					lim = search.Limits{Infinite: true}
				case 4:
					lim = search.Limits{Ponder: true, TimeControl: true, WhiteTime: 300 * time.Millisecond, BlackTime: 300 * time.Millisecond}
				default:
					lim = search.Limits{TimeControl: true, WhiteTime: 400 * time.Millisecond, BlackTime: 400 * time.Millisecond}
				}
				call("start", func() { s.StartSearch(*p, lim) })
			case x < 55:
				call("stop", func() { s.StopSearch() })
			case x < 65:
				call("issearching", func() { s.IsSearching() })
			case x < 72:
				call("ponderhit", func() { s.PonderHit() })
			case x < 77:
				call("newgame", func() { s.NewGame() })
			case x < 81:
				call("clearhash", func() { s.ClearHash() })
			case x < 84:
				call("resizecache", func() { s.ResizeCache() })
			case x < 90:
				call("isready", func() { s.IsReady() })
			default:
				time.Sleep(time.Duration(r.Intn(6000)) * time.Microsecond)
			}
		}
		if !blocked {
			call("stop", func() { s.StopSearch() })
		}
		// timers poll every 5 ms: let them end before the next Search object is created
		time.Sleep(20 * time.Millisecond)
	}
}

// c14raceUci: UCI sessions under the race detector on ONE handler created
// before anything else in the process (as the engine does).
func c14raceUci(c *Ctx) {
	rep := c.Rep
	nSess := c.Size(40, 1500)
	u := newUciSess()
	for sid := 0; sid < nSess; sid++ {
		if sid%4 != c.Shard/4 {
			continue
		}
		r := SubRng(c.Seed, "c14/raceuci", sid)
		rep.Begin(fmt.Sprintf("race uci session %d", sid))
		rep.Inc("race_uci_sessions")
		u.send("uci")
		u.send("setoption name Use_Book value false")
		u.send("setoption name Hash value 2")
		if ok, _ := u.sync(60 * time.Second); !ok {
			rep.Inconclusive("race uci session: no readyok after setup")
			continue
		}
		for k := 0; k < 6+r.Intn(8); k++ {
			rep.Eval(1)
			rep.Inc("calls")
			u.send([]string{"position startpos", "position startpos moves e2e4 e7e5", "position fen " + lcRoots[2].fen}[r.Intn(3)])
			switch r.Intn(4) {
			case 0:
				u.send(fmt.Sprintf("go depth %d", 1+r.Intn(3)))
				u.waitFor(isBestmove, 120*time.Second)
			case 1:
				u.send("go infinite")
				u.send("isready")
				u.waitFor(func(l string) bool { return l == "readyok" }, 120*time.Second)
				time.Sleep(time.Duration(r.Intn(10000)) * time.Microsecond)
				u.send("stop")
				u.waitFor(isBestmove, 120*time.Second)
			case 2:
				u.send(fmt.Sprintf("go movetime %d", 5+r.Intn(30)))
				u.send("isready")
				u.waitFor(isBestmove, 120*time.Second)
			default:
				u.send("go ponder wtime 300 btime 300")
				time.Sleep(time.Duration(r.Intn(8000)) * time.Microsecond)
				u.send("ponderhit")
				u.waitFor(isBestmove, 120*time.Second)
				u.send("ucinewgame")
			}
			u.sync(120 * time.Second)
		}
		u.send("ucinewgame")
		u.sync(120 * time.Second)
	}
	rep.Sample(map[string]interface{}{"race_uci_transcript_tail": u.transcript(40)})
	u.quit(30 * time.Second)
}
