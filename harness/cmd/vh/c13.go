package main

import (
	"fmt"
	"sync"
	"time"

	"github.com/frankkopp/FrankyGo/internal/search"
	"github.com/frankkopp/FrankyGo/internal/types"
	rc "github.com/frankkopp/FrankyGo/verifh/refchess"
)

func init() {
	register(&CheckSpec{
		ID: "C13", Fn: c13,
		Rule:        "budget: the time-budget computation (verif wrapper) swept over remaining time 1 ms..3 h (log grid) x increment {0, 1 ms, T/100, T/10, T/2, T, 2T, 10T} x movestogo {0,1,2,5,10,40,100} x side x positions of game phase 0..24: budget <= mover's remaining time and n*budget <= T + n*inc (n = movestogo, 15 when none); live clock searches: timer-start trace value equals the wrapper's; depth: SearchDepth == d and info depth 1..d all sent unless the root is terminal / single-move; nodes: NodesVisited <= limit + 256; searchmoves: best move in the list for random subsets of the legal root moves; movetime: elapsed <= movetime + allowance, exceedances re-run serially and only reproducible ones count; distinct = distinct parameter tuples",
		Assumptions: []string{"allowance for the temporal clause 250 ms (parallel load), decided by isolate-and-reproduce", "node overshoot bound 256 = at most one node per ply (MaxDepth 128) while unwinding plus one per iteration"},
		Required:    []string{"budget_evaluations", "budget_inc_gt_time", "budget_movestogo_1", "budget_opponent_has_more_time", "depth_searches", "node_searches", "node_searches_heavy_positions", "node_searches_with_rejected_start", "searchmoves_searches", "searchmoves_excluding_best", "movetime_searches", "movetime_searches_with_rejected_start", "clock_searches_traced"},
		MinEvals:    10000,
		TimeoutQ:    20 * 60e9,
	})
}

func c13(c *Ctx) {
	rep := c.Rep
	s, drv := newSearch(2)
	// ---------------- budget sweep (deterministic, no search) ----------------
	phaseFens := []string{
		"4k3/8/8/8/8/8/4P3/4K3 w - - 0 1",          // 0
		"4k3/8/8/8/8/8/8/4KN2 w - - 0 1",            // 1
		"4k3/8/8/8/8/8/8/R3K2R w KQ - 0 1",          // 4
		"r3k2r/8/8/8/8/8/8/R3K2R w KQkq - 0 1",      // 8
		"r2qk2r/8/8/8/8/8/8/R2QK2R w KQkq - 0 1",    // 16
		"rnbqkbnr/pppppppp/8/8/8/8/PPPPPPPP/RNBQKBNR w KQkq - 0 1", // 24
		"r1bqk2r/pppp1ppp/2n2n2/2b1p3/2B1P3/2N2N2/PPPP1PPP/R1BQK2R b KQkq - 6 5",
		"4k3/8/8/8/8/8/4p3/4K3 b - - 0 1",
	}
	var times []time.Duration
	for t := float64(time.Millisecond); t <= float64(3*time.Hour); t *= 1.5 {
		times = append(times, time.Duration(t))
	}
	times = append(times, 3*time.Hour, 99*time.Millisecond, 100*time.Millisecond, 101*time.Millisecond)
	idx := 0
	for _, fen := range phaseFens {
		p := engPos(fen)
		white := rc.MustFEN(fen).White
		for _, T := range times {
			incs := []time.Duration{0, time.Millisecond, T / 100, T / 10, T / 2, T, 2 * T, 10 * T}
			for _, inc := range incs {
				for _, mtg := range []int{0, 1, 2, 5, 10, 40, 100} {
					idx++
					if !c.Mine(idx) {
						continue
					}
					// the opponent's clock and increment must not matter: vary them
					// (smaller, larger, much larger than the mover's)
					other := []time.Duration{T / 3, 3 * T, T + time.Hour}[idx%3]
					otherInc := []time.Duration{0, 10 * T, inc / 2}[(idx/3)%3]
					sl := search.Limits{TimeControl: true, MovesToGo: mtg}
					if white {
						sl.WhiteTime, sl.WhiteInc, sl.BlackTime, sl.BlackInc = T, inc, other, otherInc
					} else {
						sl.BlackTime, sl.BlackInc, sl.WhiteTime, sl.WhiteInc = T, inc, other, otherInc
					}
					if other > T {
						rep.Inc("budget_opponent_has_more_time")
					}
					budget := s.VerifSetupTimeControl(p, &sl)
					rep.Eval(1)
					rep.Inc("budget_evaluations")
					rep.Distinct(uint64(T) ^ uint64(inc)<<20 ^ uint64(mtg)<<50 ^ hashStr(fen))
					if inc > T {
						rep.Inc("budget_inc_gt_time")
					}
					if mtg == 1 {
						rep.Inc("budget_movestogo_1")
					}
					n := int64(mtg)
					if n == 0 {
						n = 15
					}
					payload := map[string]interface{}{"fen": fen, "remaining_ms": float64(T) / 1e6, "inc_ms": float64(inc) / 1e6, "movestogo": mtg, "budget_ms": float64(budget) / 1e6, "opponent_remaining_ms": float64(other) / 1e6, "opponent_inc_ms": float64(otherInc) / 1e6}
					if budget > T {
						k := "budget:exceeds-remaining-time"
						if inc > T/2 {
							k += ":large-increment"
						}
						rep.Viol(k, fmt.Sprintf("time budget %s exceeds the mover's remaining time %s (inc %s, movestogo %d, %s)", budget, T, inc, mtg, fen), payload)
					}
					if budget < 0 {
						rep.Viol("budget:negative", fmt.Sprintf("negative time budget %s", budget), payload)
					}
					if n*int64(budget) > int64(T)+n*int64(inc) {
						rep.Viol("budget:does-not-fit-movestogo", fmt.Sprintf("%d x budget %s exceeds remaining %s + %d x inc %s (%s)", n, budget, T, n, inc, fen), payload)
					}
				}
			}
		}
	}
	// movetime budget
	for ms := 1; ms <= 5000; ms = ms*3/2 + 1 {
		sl := search.Limits{TimeControl: true, MoveTime: time.Duration(ms) * time.Millisecond}
		b := s.VerifSetupTimeControl(engPos(phaseFens[5]), &sl)
		rep.Eval(1)
		if b > sl.MoveTime || b < 0 {
			rep.Viol("budget:movetime", fmt.Sprintf("movetime %s gives budget %s", sl.MoveTime, b), nil)
		}
	}

	// ---------------- limited searches ----------------
	roots := corpusRoots()
	var traceMu sync.Mutex
	var timerStarts []int64
	var timerExitEarly int
	var timerEvents, timedSearches int // events seen / timed searches started in this loop (under traceMu)
	var dbgEvents []string
	var resultNodes []int64 // node counts of the results sent since the last reset (under traceMu)
	dbgT0 := time.Now()
	search.VerifTraceHook = func(ev string, a, b int64) {
		traceMu.Lock()
		dbgEvents = append(dbgEvents, fmt.Sprintf("%.3fms %s %d %d", float64(time.Since(dbgT0))/1e6, ev, a, b))
		if len(dbgEvents) > 400 {
			dbgEvents = dbgEvents[200:]
		}
		traceMu.Unlock()
		if ev == "result-send" {
			traceMu.Lock()
			resultNodes = append(resultNodes, b)
			traceMu.Unlock()
		}
		if ev == "timer-start" {
			traceMu.Lock()
			timerStarts = append(timerStarts, b)
			timerEvents++
			traceMu.Unlock()
		}
		if ev == "timer-exit-early" {
			traceMu.Lock()
			timerExitEarly++
			traceMu.Unlock()
		}
	}
	nSearch := c.Size(640, 20000)
	var slow []func() (time.Duration, time.Duration, string)
	for i := 0; i < nSearch; i++ {
		if !c.Mine(i) {
			continue
		}
		r := SubRng(c.Seed, "c13/search", i)
		b := rc.MustFEN(roots[r.Intn(len(roots))])
		if r.Chance(0.3) {
			if st := playout(r, b, 1+r.Intn(20), defaultBias); len(st) > 0 {
				b = st[len(st)-1].After
			}
		}
		legal := b.Legal()
		if len(legal) == 0 {
			continue
		}
		restoreSearchCfg()
		cfgDesc := "default"
		if r.Chance(0.3) {
			// stand-pat stays on: without it a depth-limited search is a full capture search at
			// every leaf and can run for hours on a busy middlegame (seen in the thorough tier);
			// C05 exercises that switch under a node cap
			cfgDesc = applyCfgMask(searchCfgMask(r.U64()) | 1<<1)
		}
		if r.Chance(0.7) {
			s.NewGame()
			cfgDesc += " newgame"
		}
		rep.Begin("config " + cfgDesc)
		fen := b.FEN()
		p := engPos(fen)
		payload := map[string]interface{}{"fen": fen, "config": cfgDesc}
		drv.Reset()
		switch i % 5 {
		case 0: // depth
			d := 1 + r.Intn(6)
			rep.Begin(fmt.Sprintf("depth %d %s", d, fen))
			res := runSearch(s, p, search.Limits{Depth: d})
			rep.Eval(1)
			rep.Inc("depth_searches")
			rep.DistinctStr(fmt.Sprintf("d%d%s", d, fen))
			payload["depth"] = d
			if len(legal) == 1 {
				continue
			}
			if res.SearchDepth != d {
				rep.Viol("depth:wrong-number-of-iterations", fmt.Sprintf("go depth %d on %s finished with SearchDepth %d", d, fen, res.SearchDepth), payload)
			}
			seen := map[int]bool{}
			drv.mu.Lock()
			for _, it := range drv.Iter {
				seen[it.Depth] = true
			}
			drv.mu.Unlock()
			for k := 1; k <= d; k++ {
				if !seen[k] {
					rep.Viol("depth:iteration-info-missing", fmt.Sprintf("go depth %d on %s: no 'info depth %d' was sent", d, fen, k), payload)
					break
				}
			}
		case 1: // nodes
			n := uint64(1 + r.Intn(40000))
			if r.Chance(0.3) {
				n = uint64(1 + r.Intn(300))
			}
			if r.Chance(0.3) {
				// a board crowded with heavy pieces: the limit is usually reached deep inside a
				// huge quiescence tree
				hb := heavyPosition(r)
				fen, p = hb.FEN(), engPos(hb.FEN())
				payload["fen"] = fen
				rep.Inc("node_searches_heavy_positions")
			}
			rep.Begin(fmt.Sprintf("nodes %d %s", n, fen))
			traceMu.Lock()
			resultNodes = nil
			traceMu.Unlock()
			if r.Chance(0.35) {
				// a second start while this search runs is rejected and must leave the running
				// search's limit alone
				rep.Inc("node_searches_with_rejected_start")
				s.StartSearch(*p, search.Limits{Nodes: n, Depth: 9})
				time.Sleep(time.Duration(200+r.Intn(2500)) * time.Microsecond)
				s.StartSearch(*engPos(fen), search.Limits{Depth: 1})
				done := make(chan struct{})
				go func() { s.WaitWhileSearching(); close(done) }()
				select {
				case <-done:
				case <-time.After(15 * time.Second):
					// judged below by the node count, not by the time
					s.StopSearch()
					<-done
				}
			} else {
				runSearch(s, p, search.Limits{Nodes: n, Depth: 9})
			}
			rep.Eval(1)
			rep.Inc("node_searches")
			rep.DistinctStr(fmt.Sprintf("n%d%s", n, fen))
			payload["nodes"] = n
			// the node count of the node-limited search itself (a second start that came after
			// its end was accepted and ran a search of its own)
			got := s.NodesVisited()
			traceMu.Lock()
			if len(resultNodes) > 0 {
				got = uint64(resultNodes[0])
			}
			traceMu.Unlock()
			if got > n+256 {
				traceMu.Lock()
				k := len(dbgEvents) - 40
				if k < 0 {
					k = 0
				}
				payload["trace_tail"] = append([]string(nil), dbgEvents[k:]...)
				traceMu.Unlock()
				rep.Viol("nodes:overshoot", fmt.Sprintf("go nodes %d on %s visited %d nodes", n, fen, got), payload)
			}
		case 2: // searchmoves
			var lim search.Limits
			lim.Depth = 1 + r.Intn(4)
			// what would be played without restriction?
			free := runSearch(s, p, search.Limits{Depth: lim.Depth})
			s.NewGame()
			k := 1 + r.Intn(len(legal))
			perm := make([]int, len(legal))
			for j := range perm {
				perm[j] = j
			}
			for j := range perm {
				o := j + r.Intn(len(perm)-j)
				perm[j], perm[o] = perm[o], perm[j]
			}
			var listed []string
			inList := map[types.Move]bool{}
			exclBest := true
			for _, j := range perm[:k] {
				m := toEng(legal[j])
				if m == free.BestMove.MoveOf() && len(legal) > 1 && r.Chance(0.7) {
					continue
				}
				lim.Moves.PushBack(m)
				inList[m] = true
				listed = append(listed, m.StringUci())
				if m == free.BestMove.MoveOf() {
					exclBest = false
				}
			}
			if len(listed) == 0 {
				continue
			}
			rep.Begin(fmt.Sprintf("searchmoves %v depth %d %s", listed, lim.Depth, fen))
			res := runSearch(s, p, lim)
			rep.Eval(1)
			rep.Inc("searchmoves_searches")
			if exclBest {
				rep.Inc("searchmoves_excluding_best")
			}
			rep.DistinctStr(fmt.Sprintf("sm%v%s", listed, fen))
			payload["searchmoves"] = listed
			payload["bestmove"] = res.BestMove.StringUci()
			if !inList[res.BestMove.MoveOf()] {
				rep.Viol("searchmoves:bestmove-not-listed", fmt.Sprintf("go searchmoves %v on %s answers %s", listed, fen, res.BestMove.StringUci()), payload)
			}
		case 3: // movetime
			mt := time.Duration(10+r.Intn(120)) * time.Millisecond
			disturbed := r.Chance(0.35)
			if disturbed {
				rep.Inc("movetime_searches_with_rejected_start")
			}
			run := func() (time.Duration, time.Duration, string) {
				t0 := time.Now()
				traceMu.Lock()
				timedSearches++
				traceMu.Unlock()
				traceMu.Lock()
				exitEarly0 := timerExitEarly
				traceMu.Unlock()
				s.StartSearch(*engPos(fen), search.Limits{TimeControl: true, MoveTime: mt})
				if disturbed {
					// a second start while this search runs is rejected - and must leave the
					// running search and its time limit alone
					time.Sleep(time.Duration(1+r.Intn(6)) * time.Millisecond)
					s.StartSearch(*engPos(fen), search.Limits{Depth: 1})
				}
				done := make(chan struct{})
				go func() { s.WaitWhileSearching(); close(done) }()
				select {
				case <-done:
				case <-time.After(mt + 5*time.Second):
					// far beyond the limit: did the search's timer give up although nobody asked
					// the search to stop?  (decided by the trace, not by the 5 s)
					traceMu.Lock()
					gaveUp := timerExitEarly > exitEarly0
					traceMu.Unlock()
					s.StopSearch()
					<-done
					if gaveUp {
						rep.Viol("movetime:timer-gave-up-while-search-runs", fmt.Sprintf("go movetime %s on %s (second start rejected meanwhile: %v): the search's timer ended early without any stop request and the search ran on until it was stopped from outside after %s", mt, fen, disturbed, time.Since(t0)), payload)
					} else {
						rep.Inconclusive(fmt.Sprintf("movetime %s search on %s still running after %s (stopped from outside)", mt, fen, time.Since(t0)))
					}
					return mt, mt, fen
				}
				return time.Since(t0), mt, fen
			}
			rep.Begin(fmt.Sprintf("movetime %s %s", mt, fen))
			el, _, _ := run()
			rep.Eval(1)
			rep.Inc("movetime_searches")
			rep.DistinctStr(fmt.Sprintf("mt%d%s", mt, fen))
			if el > mt+250*time.Millisecond {
				slow = append(slow, run)
			}
		case 4: // clock: live budget equals the wrapper's
			T := time.Duration(300+r.Intn(3000)) * time.Millisecond
			sl := search.Limits{TimeControl: true, WhiteTime: T, BlackTime: T, WhiteInc: time.Duration(r.Intn(30)) * time.Millisecond, BlackInc: time.Duration(r.Intn(30)) * time.Millisecond, MovesToGo: []int{0, 0, 10, 40}[r.Intn(4)]}
			want := s.VerifSetupTimeControl(p, &sl)
			// every earlier timed search of this loop started one timer goroutine, which may be
			// scheduled long after its search has ended: let them report before this search
			// begins, otherwise their events would be counted here
			settled := false
			for w := 0; w < 2000; w++ {
				traceMu.Lock()
				settled = timerEvents >= timedSearches
				traceMu.Unlock()
				if settled {
					break
				}
				time.Sleep(5 * time.Millisecond)
			}
			if !settled {
				rep.Inconclusive(fmt.Sprintf("timer goroutines of earlier searches did not report within 10 s (%d of %d): clock case skipped", timerEvents, timedSearches))
				break
			}
			traceMu.Lock()
			timerStarts = nil
			timedSearches++
			traceMu.Unlock()
			rep.Begin(fmt.Sprintf("clock %+v %s", sl, fen))
			t0 := time.Now()
			res := runSearch(s, p, sl)
			el := time.Since(t0)
			rep.Eval(1)
			rep.Inc("clock_searches_traced")
			// the timer goroutine may be scheduled after a very short search has ended
			var ts []int64
			for w := 0; w < 100; w++ {
				traceMu.Lock()
				ts = append([]int64(nil), timerStarts...)
				traceMu.Unlock()
				if len(ts) > 0 {
					break
				}
				time.Sleep(5 * time.Millisecond)
			}
			payload["limits"] = fmt.Sprintf("%+v", sl)
			if len(ts) != 1 {
				rep.Viol("clock:timer-count", fmt.Sprintf("clock search started %d timers", len(ts)), payload)
			} else if time.Duration(ts[0]) != want {
				rep.Viol("clock:live-budget-differs", fmt.Sprintf("live timer limit %s, budget computation gives %s", time.Duration(ts[0]), want), payload)
			}
			_ = res
			if el > want+250*time.Millisecond && len(legal) > 1 {
				fenC, slC := fen, sl
				slow = append(slow, func() (time.Duration, time.Duration, string) {
					t0 := time.Now()
					traceMu.Lock()
					timedSearches++
					traceMu.Unlock()
					s.StartSearch(*engPos(fenC), slC)
					s.WaitWhileSearching()
					return time.Since(t0), want, fenC
				})
			}
		}
		if i < 5 {
			rep.Sample(map[string]interface{}{"fen": fen, "kind": []string{"depth", "nodes", "searchmoves", "movetime", "clock"}[i%5]})
		}
	}
	search.VerifTraceHook = nil
	// isolate-and-reproduce for the temporal clause
	for _, run := range slow {
		rep.Inc("temporal_exceedances_first_run")
		exceeded := 0
		var last, lim time.Duration
		var fen string
		for k := 0; k < 3; k++ {
			time.Sleep(50 * time.Millisecond)
			last, lim, fen = run()
			if last > lim+250*time.Millisecond {
				exceeded++
			}
		}
		if exceeded == 3 {
			rep.Viol("time:limit-exceeded-reproducibly", fmt.Sprintf("search with time limit %s took %s in 3 of 3 isolated re-runs (%s)", lim, last, fen), map[string]interface{}{"fen": fen, "limit_ms": float64(lim) / 1e6})
		} else if exceeded > 0 {
			rep.Inconclusive(fmt.Sprintf("time limit %s exceeded in %d of 3 re-runs on %s (load?)", lim, exceeded, fen))
		}
	}
	restoreSearchCfg()
}
