package main

import (
	"fmt"
	"sort"
	"strings"

	"github.com/frankkopp/FrankyGo/internal/types"
	rc "github.com/frankkopp/FrankyGo/verifh/refchess"
)

func init() {
	register(&CheckSpec{
		ID: "C10", Fn: c10,
		Rule:        "repetition: games produced by refchess with constructed cycles (reversible move pairs repeated, interleaved, perturbed by rights loss, double pushes, irreversible moves, FEN clocks 40-99, FEN starts carrying an ep square); at every ply CheckRepetitions(n), n=1..4, compared with the count of earlier identical (placement, side, rights, ep) records, and HalfMoveClock with the rule count; material: exhaustive enumeration of all multisets of <=3 extra pieces per side (P,N,B-light,B-dark,R,Q) on random legal placements with the three-valued oracle must-report / must-not-report / free; distinct = distinct (game record prefix) identities + material signatures",
		Assumptions: []string{"refchess game record is the reference; material classes exactly as worded in C10, everything else is not judged"},
		Required:    []string{"plies", "rep_ge1_plies", "rep_ge2_plies", "rep_ge3_plies", "games_beyond_512_plies", "material_by_play_checks", "cycles_with_rights_loss", "cycles_with_double_push", "lookalike_different_ep", "fen_clock_games", "material_signatures", "material_must_report", "material_must_not", "material_free", "games_with_ep_start"},
		MinEvals:    10000,
	})
}

// reversible finds a legal quiet non-pawn move m of the side to move in b whose
// inverse is pseudo-legal later (piece moves back).
func reversibleMoves(b *rc.Board) []rc.Move {
	var res []rc.Move
	for _, m := range b.Legal() {
		if m.Kind != rc.Normal || b.Sq[m.To] != 0 {
			continue
		}
		p := b.Sq[m.From]
		if p == 'P' || p == 'p' {
			continue
		}
		res = append(res, m)
	}
	return res
}

func inverse(m rc.Move) rc.Move { return rc.Move{From: m.To, To: m.From, Kind: rc.Normal} }

func isLegalIn(b *rc.Board, m rc.Move) bool {
	for _, l := range b.Legal() {
		if l == m {
			return true
		}
	}
	return false
}

// buildCycleGame constructs a game with deliberate repetitions.
func buildCycleGame(r *Rng, start *rc.Board, maxPlies int, rep *Rep) []Step {
	var steps []Step
	b := start
	push := func(m rc.Move) bool {
		if !isLegalIn(b, m) {
			return false
		}
		n := b.Apply(m)
		steps = append(steps, Step{b, m, n})
		b = n
		return true
	}
	for len(steps) < maxPlies {
		switch x := r.Intn(10); {
		case x < 6: // cycle A B A' B' repeated k times
			ra := reversibleMoves(b)
			if len(ra) == 0 {
				goto random
			}
			{
				a := ra[r.Intn(len(ra))]
				b1 := b.Apply(a)
				rb := reversibleMoves(b1)
				if len(rb) == 0 {
					goto random
				}
				bm := rb[r.Intn(len(rb))]
				k := 1 + r.Intn(4)
				rightsBefore := b.CastleString()
				okc := true
				for i := 0; i < k && okc && len(steps) < maxPlies; i++ {
					for _, m := range []rc.Move{a, bm, inverse(a), inverse(bm)} {
						if !push(m) {
							okc = false
							break
						}
					}
					// sometimes interleave another small cycle
					if okc && r.Chance(0.2) {
						r2 := reversibleMoves(b)
						if len(r2) > 0 {
							a2 := r2[r.Intn(len(r2))]
							bb := b.Apply(a2)
							r3 := reversibleMoves(bb)
							if len(r3) > 0 {
								b2 := r3[r.Intn(len(r3))]
								for _, m := range []rc.Move{a2, b2, inverse(a2), inverse(b2)} {
									if !push(m) {
										break
									}
								}
							}
						}
					}
				}
				if b.CastleString() != rightsBefore {
					rep.Inc("cycles_with_rights_loss")
				}
			}
			continue
		case x < 7: // double push inside (ep field differs once), then continue cycling
			var dp []rc.Move
			for _, m := range b.Legal() {
				if p := b.Sq[m.From]; (p == 'P' || p == 'p') && abs(m.To-m.From) == 16 {
					dp = append(dp, m)
				}
			}
			if len(dp) > 0 {
				push(dp[r.Intn(len(dp))])
				rep.Inc("cycles_with_double_push")
				continue
			}
		}
	random:
		ms := b.Legal()
		if len(ms) == 0 {
			break
		}
		// mostly quiet moves so that cycles stay possible, sometimes anything
		var quiet []rc.Move
		for _, m := range ms {
			if m.Kind == rc.Normal && b.Sq[m.To] == 0 {
				quiet = append(quiet, m)
			}
		}
		if len(quiet) > 0 && r.Chance(0.8) {
			push(quiet[r.Intn(len(quiet))])
		} else {
			push(ms[r.Intn(len(ms))])
		}
	}
	return steps
}

var c10Starts = []string{
	rc.StartFEN,
	"4k3/8/8/8/8/8/8/R3K2R w KQ - 0 1",
	"r3k2r/8/8/8/8/8/8/R3K2R w KQkq - 0 1",
	"r3k2r/pppppppp/8/8/8/8/PPPPPPPP/R3K2R w KQkq - 0 1",
	"4k3/8/8/8/8/8/8/4K2R w K - 40 30",
	"4k3/8/8/8/8/8/8/3QK3 w - - 97 70",
	"4k2n/8/8/8/8/8/8/N3K3 b - - 60 40",
	"8/4k3/8/2r5/8/8/3PP3/R3K3 w Q - 12 20",
	"4k3/3pp3/8/8/8/8/3PP3/4K3 w - - 0 1",
	"rnbqkbnr/pppppppp/8/8/4P3/8/PPPP1PPP/RNBQKBNR b KQkq e3 0 1",
	"4k3/8/8/3pP3/8/8/8/4K1N1 w - d6 0 5",
	"4k1n1/8/8/8/3Pp3/8/8/4K1N1 b - d3 0 5",
	"r1bqkbnr/pppp1ppp/2n5/4p3/4P3/5N2/PPPP1PPP/RNBQKB1R w KQkq - 2 3",
	"8/8/4k3/8/8/2B1K3/8/6n1 w - - 99 90",
}

// buildVeryLongGame: a legal game from the start position made of knight shuffles (which
// knights shuffle changes from segment to segment, so the sequence is not periodic) with a pawn
// move of either side every 50-110 plies.
func buildVeryLongGame(r *Rng, start *rc.Board, plies int) []Step {
	var steps []Step
	b := start
	play := func(u string) bool {
		for _, l := range b.Legal() {
			if l.UCI() == u {
				n := b.Apply(l)
				steps = append(steps, Step{b, l, n})
				b = n
				return true
			}
		}
		return false
	}
	wp := []string{"a2a3", "h2h3", "d2d3", "a3a4", "e2e3", "h3h4"}
	bp := []string{"a7a6", "h7h6", "d7d6", "a6a5", "e7e6", "h6h5"}
	wk := [][2]string{{"g1f3", "f3g1"}, {"b1c3", "c3b1"}}
	bk := [][2]string{{"g8f6", "f6g8"}, {"b8c6", "c6b8"}}
	nextPawn := 50 + r.Intn(60)
	for len(steps) < plies {
		if len(steps) >= nextPawn && (len(wp) > 0 || len(bp) > 0) {
			nextPawn = len(steps) + 50 + r.Intn(60)
			if b.White && len(wp) > 0 {
				if !play(wp[0]) {
					break
				}
				wp = wp[1:]
				continue
			}
			if !b.White && len(bp) > 0 {
				if !play(bp[0]) {
					break
				}
				bp = bp[1:]
				continue
			}
		}
		// a segment: one white and one black knight go out and back k times
		w, bl := wk[r.Intn(2)], bk[r.Intn(2)]
		k := 1 + r.Intn(5)
		if !b.White {
			// make it white's turn with a single black knight move pair later: start segment with black out
			if !play(bl[0]) || !play(w[0]) || !play(bl[1]) || !play(w[1]) {
				break
			}
			continue
		}
		ok := true
		for j := 0; j < k && ok; j++ {
			ok = play(w[0]) && play(bl[0]) && play(w[1]) && play(bl[1])
		}
		if !ok {
			break
		}
	}
	return steps
}

func c10(c *Ctx) {
	rep := c.Rep
	nGames := c.Size(480, 160000)
	sampled := 0
	for i := 0; i < nGames; i++ {
		if !c.Mine(i) {
			continue
		}
		r := SubRng(c.Seed, "c10/game", i)
		start := rc.MustFEN(c10Starts[i%len(c10Starts)])
		if i%7 == 6 {
			roots := corpusRoots()
			start = rc.MustFEN(roots[r.Intn(len(roots))])
		}
		if start.Half >= 40 {
			rep.Inc("fen_clock_games")
		}
		if start.Ep >= 0 {
			rep.Inc("games_with_ep_start")
		}
		maxPlies := 30 + r.Intn(200)
		if i%11 == 0 {
			maxPlies = 480
		}
		steps := buildCycleGame(r, start, maxPlies, rep)
		if i%16 == 5 {
			// far beyond the 512 plies the position's history holds: knight shuffles of changing
			// shape, a pawn move of either side every 50-110 plies
			start = rc.MustFEN(rc.StartFEN)
			steps = buildVeryLongGame(r, start, 600+r.Intn(600))
			rep.Inc("games_beyond_512_plies")
		}
		p := engPos(start.FEN())
		records := []string{start.RepKey()}
		placements := map[string]string{}
		for j, st := range steps {
			p.DoMove(toEng(st.Move))
			key := st.After.RepKey()
			earlier := 0
			for _, k := range records {
				if k == key {
					earlier++
				}
			}
			// look-alikes: same placement+side+rights seen before with a different ep field
			pl := st.After.Placement() + st.After.SideString() + st.After.CastleString()
			if e, ok := placements[pl]; ok && e != rc.SqName(st.After.Ep) {
				rep.Inc("lookalike_different_ep")
			}
			placements[pl] = rc.SqName(st.After.Ep)
			records = append(records, key)
			rep.Inc("plies")
			rep.Eval(5)
			rep.DistinctStr(fmt.Sprintf("%s|%d|%d", key, earlier, st.After.Half))
			if earlier >= 1 {
				rep.Inc("rep_ge1_plies")
			}
			if earlier >= 2 {
				rep.Inc("rep_ge2_plies")
			}
			if earlier >= 3 {
				rep.Inc("rep_ge3_plies")
			}
			for n := 1; n <= 4; n++ {
				want := earlier >= n
				if got := p.CheckRepetitions(n); got != want {
					kind := "false-positive"
					if want {
						kind = "false-negative"
					}
					rep.Viol(fmt.Sprintf("repetition:%s:n=%d", kind, n), fmt.Sprintf("ply %d: CheckRepetitions(%d)=%v but the position %q occurred %d times before", j+1, n, got, key, earlier),
						map[string]interface{}{"start": start.FEN(), "moves": stepMoves(steps, j+1), "n": n, "earlier": earlier})
				}
			}
			if p.HalfMoveClock() != st.After.Half {
				rep.Viol("halfmoveclock", fmt.Sprintf("ply %d: HalfMoveClock()=%d, rule count %d", j+1, p.HalfMoveClock(), st.After.Half),
					map[string]interface{}{"start": start.FEN(), "moves": stepMoves(steps, j+1)})
			}
		}
		if sampled < 2 && len(steps) > 8 {
			sampled++
			rep.Sample(map[string]interface{}{"start": start.FEN(), "moves": stepMoves(steps, 16), "plies": len(steps)})
		}
	}
	c10material(c)
}

// material oracle -----------------------------------------------------------

var matKinds = []string{"P", "N", "L", "D", "R", "Q"} // L/D = bishop on light/dark square

func multisets(kinds []string, max int) [][]string {
	res := [][]string{{}}
	var rec func(start int, cur []string)
	rec = func(start int, cur []string) {
		if len(cur) == max {
			return
		}
		for i := start; i < len(kinds); i++ {
			n := append(append([]string{}, cur...), kinds[i])
			res = append(res, n)
			rec(i, n)
		}
	}
	rec(0, nil)
	return res
}

func classifyMaterial(w, b []string) string {
	all := append(append([]string{}, w...), b...)
	for _, k := range all {
		if k == "P" || k == "R" || k == "Q" {
			return "must-not"
		}
	}
	isMinor := func(k string) bool { return k == "N" || k == "L" || k == "D" }
	if len(all) == 0 {
		return "must"
	}
	if len(all) == 1 && isMinor(all[0]) {
		return "must"
	}
	if len(w) == 1 && len(b) == 1 && (w[0] == "L" || w[0] == "D") && w[0] == b[0] {
		return "must" // same-coloured single bishops
	}
	mating := func(s, o []string) bool {
		if len(o) != 0 || len(s) != 2 {
			return false
		}
		t := append([]string{}, s...)
		sort.Strings(t)
		j := strings.Join(t, "")
		return j == "LN" || j == "DN" || j == "DL"
	}
	if mating(w, b) || mating(b, w) {
		return "must-not"
	}
	return "free"
}

func c10material(c *Ctx) {
	rep := c.Rep
	ms := multisets(matKinds, 3)
	idx := 0
	perSig := c.Size(3, 40)
	for _, w := range ms {
		for _, b := range ms {
			idx++
			if !c.Mine(idx) {
				continue
			}
			class := classifyMaterial(w, b)
			rep.Inc("material_signatures")
			switch class {
			case "must":
				rep.Inc("material_must_report")
			case "must-not":
				rep.Inc("material_must_not")
			default:
				rep.Inc("material_free")
			}
			r := SubRng(c.Seed, "c10/mat", idx)
			sig := "K" + strings.Join(w, "") + "vK" + strings.Join(b, "")
			for t := 0; t < perSig; t++ {
				bd := placeMaterial(r, w, b)
				if bd == nil {
					continue
				}
				rep.Eval(1)
				rep.DistinctStr(bd.RepKey())
				got := engPos(bd.FEN()).HasInsufficientMaterial()
				if class == "must" && !got {
					rep.Viol("material:not-reported:"+sig, fmt.Sprintf("HasInsufficientMaterial()=false for the dead material %s (%s)", sig, bd.FEN()), map[string]interface{}{"fen": bd.FEN(), "signature": sig})
				}
				if class == "must-not" && got {
					rep.Viol("material:reported:"+sig, fmt.Sprintf("HasInsufficientMaterial()=true for %s (%s)", sig, bd.FEN()), map[string]interface{}{"fen": bd.FEN(), "signature": sig})
				}
			}
		}
	}
	// the same rule on positions reached by play on one long-lived object: trade-down games
	// from boards crowded with heavy pieces (captures by king and pawns preferred) down to a
	// few pieces, judged after every ply once at most six pieces are left
	nTrade := c.Size(200, 8000)
	for ti := 0; ti < nTrade; ti++ {
		if !c.Mine(ti) {
			continue
		}
		tr := SubRng(c.Seed, "c10/trade", ti)
		b := heavyPosition(tr)
		p := engPos(b.FEN())
		var played []string
		start := b.FEN()
		for ply := 0; ply < 160; ply++ {
			ms := b.Legal()
			if len(ms) == 0 {
				break
			}
			var kp, caps []rc.Move
			for _, m := range ms {
				if b.Sq[m.To] != 0 {
					caps = append(caps, m)
					if pc := b.Sq[m.From]; pc == 'K' || pc == 'k' {
						kp = append(kp, m)
					}
				}
			}
			m := ms[tr.Intn(len(ms))]
			if len(kp) > 0 && tr.Chance(0.9) {
				m = kp[tr.Intn(len(kp))]
			} else if len(caps) > 0 && tr.Chance(0.9) {
				m = caps[tr.Intn(len(caps))]
			}
			p.DoMove(toEng(m))
			b = b.Apply(m)
			played = append(played, m.UCI())
			var w, bl []string
			n := 0
			for sq, pc := range b.Sq {
				k := ""
				switch pc {
				case 'P', 'p':
					k = "P"
				case 'N', 'n':
					k = "N"
				case 'R', 'r':
					k = "R"
				case 'Q', 'q':
					k = "Q"
				case 'B', 'b':
					k = "D"
					if (rc.File(sq)+rc.Rank(sq))%2 == 1 {
						k = "L"
					}
				}
				if k == "" {
					continue
				}
				n++
				if pc < 'a' {
					w = append(w, k)
				} else {
					bl = append(bl, k)
				}
			}
			if n > 4 {
				continue
			}
			rep.Eval(1)
			rep.Inc("material_by_play_checks")
			class := classifyMaterial(w, bl)
			got := p.HasInsufficientMaterial()
			sig := "K" + strings.Join(w, "") + "vK" + strings.Join(bl, "")
			if class == "must" && !got {
				rep.Viol("material:not-reported:by-play:"+sig, fmt.Sprintf("HasInsufficientMaterial()=false for the dead material %s reached by play (%s)", sig, b.FEN()), map[string]interface{}{"start": start, "moves": append([]string(nil), played...), "fen": b.FEN()})
			}
			if class == "must-not" && got {
				rep.Viol("material:reported:by-play:"+sig, fmt.Sprintf("HasInsufficientMaterial()=true for %s reached by play (%s)", sig, b.FEN()), map[string]interface{}{"start": start, "moves": append([]string(nil), played...), "fen": b.FEN()})
			}
			if n == 0 {
				break
			}
		}
	}
	_ = types.White
}

func placeMaterial(r *Rng, w, b []string) *rc.Board {
	for try := 0; try < 200; try++ {
		bd := &rc.Board{Ep: -1, Full: 40, Half: r.Intn(30), White: r.Chance(0.5)}
		wk, bk := r.Intn(64), r.Intn(64)
		if wk == bk || (abs(rc.File(wk)-rc.File(bk)) <= 1 && abs(rc.Rank(wk)-rc.Rank(bk)) <= 1) {
			continue
		}
		bd.Sq[wk], bd.Sq[bk] = 'K', 'k'
		ok := true
		place := func(kind string, white bool) {
			for t := 0; t < 100; t++ {
				sq := r.Intn(64)
				if bd.Sq[sq] != 0 {
					continue
				}
				light := (rc.File(sq)+rc.Rank(sq))%2 == 1
				var p byte
				switch kind {
				case "P":
					if rc.Rank(sq) == 0 || rc.Rank(sq) == 7 {
						continue
					}
					p = 'P'
				case "N":
					p = 'N'
				case "L":
					if !light {
						continue
					}
					p = 'B'
				case "D":
					if light {
						continue
					}
					p = 'B'
				case "R":
					p = 'R'
				case "Q":
					p = 'Q'
				}
				if !white {
					p += 32
				}
				bd.Sq[sq] = p
				return
			}
			ok = false
		}
		for _, k := range w {
			place(k, true)
		}
		for _, k := range b {
			place(k, false)
		}
		if !ok || bd.InCheck(!bd.White) {
			continue
		}
		return bd
	}
	return nil
}
