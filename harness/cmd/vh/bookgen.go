package main

import (
	"regexp"
	"fmt"
	"strings"

	"github.com/frankkopp/FrankyGo/internal/position"
	rc "github.com/frankkopp/FrankyGo/verifh/refchess"
)

// bookGame is one generated game: reference moves plus an optional defect.
type bookGame struct {
	Moves []rc.Move   // the legal prefix that counts
	SANs  []string    // SAN of each move (standard form)
	Tail  string      // "" | "illegal" | "unreadable": what follows the legal prefix
	TailUci, TailSan string // the offending token in coordinate / SAN form
	After []rc.Move   // moves written after the offending token (must be ignored)
	AfterSAN []string
}

type bookSet struct {
	Games []bookGame
}

// genBookSet generates a collection with transpositions, duplicates and defects.
func genBookSet(r *Rng, nGames int, maxPlies int) *bookSet {
	bs := &bookSet{}
	start := rc.MustFEN(rc.StartFEN)
	for len(bs.Games) < nGames {
		var g bookGame
		switch x := r.Intn(10); {
		case x < 2 && len(bs.Games) > 0:
			// duplicate of an earlier game
			g = bs.Games[r.Intn(len(bs.Games))]
			bs.Games = append(bs.Games, g)
			continue
		case x < 4 && len(bs.Games) > 0:
			// transposition: take an earlier game and swap two commuting white moves
			src := bs.Games[r.Intn(len(bs.Games))]
			if len(src.Moves) >= 3 {
				ms := append([]rc.Move(nil), src.Moves...)
				i := 2 * r.Intn((len(ms)-1)/2)
				ms[i], ms[i+2] = ms[i+2], ms[i]
				if gg, ok := replayGame(start, ms); ok {
					g = gg
					break
				}
			}
			fallthrough
		default:
			n := 1 + r.Intn(maxPlies)
			steps := playout(r, start, n, Bias{Capture: 2, Castle: 6, Promo: 0, Ep: 6, Double: 3, KingRook: 0.7, Shuffle: 2})
			var ms []rc.Move
			for _, st := range steps {
				if st.Move.Kind == rc.Promotion {
					break
				}
				ms = append(ms, st.Move)
			}
			if len(ms) == 0 {
				continue
			}
			g, _ = replayGame(start, ms)
		}
		if len(g.Moves) == 0 {
			continue
		}
		// defects
		if r.Chance(0.25) && len(g.Moves) >= 2 {
			cut := 1 + r.Intn(len(g.Moves)-1)
			rest, restSan := g.Moves[cut:], g.SANs[cut:]
			g.Moves, g.SANs = g.Moves[:cut], g.SANs[:cut]
			b := start
			for _, m := range g.Moves {
				b = b.Apply(m)
			}
			if r.Chance(0.6) {
				// a well-formed but illegal move
				g.Tail = "illegal"
				g.TailUci, g.TailSan = illegalToken(r, b)
			} else {
				g.Tail = "unreadable"
				g.TailUci = "" // the Simple reader only sees coordinate groups: nothing is written
				g.TailSan = []string{"Zz9", "??", "xx", "Qz9", "--", "N@z3"}[r.Intn(6)]
			}
			g.After, g.AfterSAN = rest, restSan
		}
		bs.Games = append(bs.Games, g)
	}
	return bs
}

func replayGame(start *rc.Board, ms []rc.Move) (bookGame, bool) {
	var g bookGame
	b := start
	for _, m := range ms {
		ok := false
		for _, l := range b.Legal() {
			if l == m {
				ok = true
			}
		}
		if !ok {
			return g, false
		}
		g.Moves = append(g.Moves, m)
		g.SANs = append(g.SANs, b.SAN(m, rc.SanOpts{}))
		b = b.Apply(m)
	}
	return g, true
}

// illegalToken returns a coordinate move and a SAN string that are well formed but not legal in b.
func illegalToken(r *Rng, b *rc.Board) (string, string) {
	legal := map[string]bool{}
	for _, m := range b.Legal() {
		legal[m.UCI()] = true
	}
	for {
		from, to := r.Intn(64), r.Intn(64)
		u := rc.SqName(from) + rc.SqName(to)
		if from == to || legal[u] {
			continue
		}
		// SAN: a piece letter + square which no such piece can reach
		for try := 0; try < 50; try++ {
			pt := "NBRQK"[r.Intn(5)]
			sq := r.Intn(64)
			pc := pt
			if !b.White {
				pc += 32
			}
			can := false
			for _, m := range b.Legal() {
				if m.To == sq && b.Sq[m.From] == pc {
					can = true
				}
				// castling aliases (Kg1) are accepted leniently by the parser
				if m.Kind == rc.Castling && m.To == sq && pt == 'K' {
					can = true
				}
			}
			if !can {
				return u, string(pt) + rc.SqName(sq)
			}
		}
	}
}

// expectedBook computes key -> counter and key -> board for the set.
func expectedBook(bs *bookSet) (map[uint64]int, map[uint64]*rc.Board) {
	cnt := map[uint64]int{}
	boards := map[uint64]*rc.Board{}
	start := rc.MustFEN(rc.StartFEN)
	p0 := position.NewPosition()
	root := uint64(p0.ZobristKey())
	cnt[root] = 0
	boards[root] = start
	for _, g := range bs.Games {
		cnt[root]++
		p := position.NewPosition()
		b := start
		for _, m := range g.Moves {
			p.DoMove(toEng(m))
			b = b.Apply(m)
			k := uint64(p.ZobristKey())
			cnt[k]++
			boards[k] = b
		}
	}
	return cnt, boards
}

func (bs *bookSet) renderSimple(r *Rng) string {
	var sb strings.Builder
	for _, g := range bs.Games {
		sep := ""
		if r.Chance(0.5) {
			sep = " "
		}
		var toks []string
		for _, m := range g.Moves {
			toks = append(toks, m.UCI())
		}
		if g.Tail == "illegal" {
			toks = append(toks, g.TailUci)
		}
		if g.Tail != "" {
			for _, m := range g.After {
				toks = append(toks, m.UCI())
			}
		}
		if g.Tail == "unreadable" {
			// the Simple reader cannot see unreadable text: the game simply ends here
			toks = toks[:len(g.Moves)]
		}
		sb.WriteString(strings.Join(toks, sep))
		sb.WriteString("\n")
		if r.Chance(0.05) {
			sb.WriteString("\n")
		}
	}
	return sb.String()
}

func (g *bookGame) sanTokens() []string {
	toks := append([]string(nil), g.SANs...)
	if g.Tail != "" {
		toks = append(toks, g.TailSan)
		toks = append(toks, g.AfterSAN...)
	}
	return toks
}

func movetext(toks []string, r *Rng, style int, decorate bool) string {
	var sb strings.Builder
	for i, t := range toks {
		if i%2 == 0 {
			switch style {
			case 0:
				fmt.Fprintf(&sb, "%d. ", i/2+1)
			case 1:
				fmt.Fprintf(&sb, "%d.", i/2+1)
			default:
				fmt.Fprintf(&sb, "%d. ", i/2+1)
			}
		}
		sb.WriteString(t)
		if decorate {
			switch r.Intn(12) {
			case 0:
				sb.WriteString("!")
			case 1:
				sb.WriteString("?!")
			case 2:
				sb.WriteString(" $" + fmt.Sprint(1+r.Intn(139)))
			case 3:
				sb.WriteString(" {" + []string{"good move", "book", "a novelty, see game 12", "+0.35/12", "White is better", "a) the main line", "better than (see game 3", "b) also 5... a6 :)", "1) develop 2) castle (both sides)"}[r.Intn(9)] + "}")
			case 4:
				// a variation (possibly nested) which must be ignored
				sb.WriteString(" (" + fmt.Sprint(i/2+1) + "... a6 " + fmt.Sprint(i/2+2) + ". h3 (" + fmt.Sprint(i/2+2) + ". g3 g6) h6)")
			}
		}
		sb.WriteString(" ")
	}
	return strings.TrimSpace(sb.String())
}

func (bs *bookSet) renderSAN(r *Rng) string {
	var sb strings.Builder
	for _, g := range bs.Games {
		sb.WriteString(movetext(g.sanTokens(), r, r.Intn(2), false))
		if r.Chance(0.5) {
			sb.WriteString(" " + []string{"1-0", "0-1", "1/2-1/2"}[r.Intn(3)])
		}
		sb.WriteString("\n")
	}
	return sb.String()
}

func (bs *bookSet) renderPGN(r *Rng) string {
	var sb strings.Builder
	for gi, g := range bs.Games {
		if r.Chance(0.1) {
			sb.WriteString("% escaped line which must be skipped 1. a4 a5\n")
		}
		fmt.Fprintf(&sb, "[Event \"Test %d\"]\n[Site \"?\"]\n[Date \"2020.01.%02d\"]\n[White \"A, B\"]\n[Black \"C\"]\n", gi, 1+gi%28)
		res := []string{"1-0", "0-1", "1/2-1/2", "*"}[r.Intn(4)]
		fmt.Fprintf(&sb, "[Result \"%s\"]\n\n", res)
		mt := movetext(g.sanTokens(), r, r.Intn(2), true)
		// wrap lines
		words := strings.Fields(mt)
		line := ""
		depth := 0 // do not break inside comments: "; rest of line" comments only outside
		for _, w := range words {
			if len(line)+len(w) > 60 && depth == 0 {
				if r.Chance(0.15) {
					line += " ; trailing comment 1. b4"
				}
				sb.WriteString(strings.TrimSpace(line) + "\n")
				line = ""
			}
			line += w + " "
			depth += strings.Count(w, "{") + strings.Count(w, "(") - strings.Count(w, "}") - strings.Count(w, ")")
		}
		sb.WriteString(strings.TrimSpace(line+" "+res) + "\n\n")
	}
	return sb.String()
}

// genContentionSet builds a collection aimed at the moment a position is first discovered by
// several line goroutines at once: nPairs pairs of games which reach the same position through
// different predecessor positions (A x B / B x A), partners adjacent and each written `copies`
// times, all pairs of about the same length so that their goroutines meet.
func genContentionSet(r *Rng, nPairs, copies int) *bookSet {
	bs := &bookSet{}
	start := rc.MustFEN(rc.StartFEN)
	strip := func(b *rc.Board) string {
		f := strings.Fields(b.FEN())
		return strings.Join(f[:4], " ")
	}
	for tries := 0; len(bs.Games) < 2*nPairs*copies && tries < nPairs*200; tries++ {
		var prefix []rc.Move
		b := start
		for _, st := range playout(r, start, 2*r.Intn(3), Bias{Capture: 1, Double: 2, Shuffle: 1}) {
			prefix = append(prefix, st.Move)
			b = st.After
		}
		legal := b.Legal()
		if len(legal) < 2 {
			continue
		}
		a, c := legal[r.Intn(len(legal))], legal[r.Intn(len(legal))]
		if a == c || a.From == c.From || a.Kind == rc.Promotion || c.Kind == rc.Promotion {
			continue
		}
		replies := b.Apply(a).Legal()
		if len(replies) == 0 {
			continue
		}
		x := replies[r.Intn(len(replies))]
		if x.Kind == rc.Promotion {
			continue
		}
		g1, ok1 := replayGame(start, append(append([]rc.Move{}, prefix...), a, x, c))
		g2, ok2 := replayGame(start, append(append([]rc.Move{}, prefix...), c, x, a))
		if !ok1 || !ok2 {
			continue
		}
		e1, e2 := start, start
		for _, m := range g1.Moves {
			e1 = e1.Apply(m)
		}
		for _, m := range g2.Moves {
			e2 = e2.Apply(m)
		}
		if strip(e1) != strip(e2) {
			continue
		}
		// a short common tail
		var tail []rc.Move
		for _, st := range playout(r, e1, 1+r.Intn(2), Bias{Capture: 1, Shuffle: 1}) {
			if st.Move.Kind == rc.Promotion {
				break
			}
			tail = append(tail, st.Move)
		}
		g1, ok1 = replayGame(start, append(append([]rc.Move{}, g1.Moves...), tail...))
		g2, ok2 = replayGame(start, append(append([]rc.Move{}, g2.Moves...), tail...))
		if !ok1 || !ok2 {
			continue
		}
		for k := 0; k < copies; k++ {
			bs.Games = append(bs.Games, g1, g2)
		}
	}
	return bs
}

var reBothDisambig = regexp.MustCompile(`^[NBRQ][a-h][1-8]x?[a-h][1-8]`)

// crowdedPreludes are legal openings which promote early, so that three pieces of one kind
// stand on the board (under-promotions included): SAN then needs file, rank or both.
var crowdedWitness = []string{
	"a2a3 h7h5 b2b3 h5h4 c2c3 h4h3 d2d3 h3g2 e2e3 g2h1n c1b2 b8c6 d1g4 g8h6 a1a2 h1f2 h2h3 c6b4 a2a1 b4d5 e1e2 d5f6 g1f3 f6g4",
	"a2a3 h7h5 b2b3 h5h4 c2c3 h4h3 d2d3 h3g2 e2e3 g2h1n g1h3 g8f6 b1d2 b8a6 d2c4 h8h6 c4d2 h6h8 a1a2 a8b8 d2b1 f6d5 h3g1 a6b4 g1e2 d5f4 a2c2 h1f2 e2g1 f4d3",
	"a2a4 b7b5 a4b5 d7d5 b5b6 h7h5 b6a7 h8h6 a7b8n a8a5 a1a4 h6h8 g1h3 a5a4 b8a6 a4d4 h1g1 d4g4 d2d3 g4g5 h3g5 h8h6 a6b8 h6e6 b8d7 g8f6 d7c5 e6d6 b1c3 f6e4 c5e4",
	"a2a3 h7h5 b2b3 h5h4 c2c3 h4h3 d2d3 h3g2 e2e3 g2h1n a1a2 b8c6 a2c2 c6b4 c2a2 b4a2 b1d2 a8b8 d2e4 h8h5 e4c5 g8f6 g1f3 h1g3 f3e5 g3e2 e5g4 f6e4 c5a4 e2c3",
}

var crowdedPreludes = []string{
	"a2a4 b7b5 a4b5 d7d5 b5b6 h7h5 b6a7 h8h6 a7b8n",
	"h2h4 g7g5 h4g5 e7e5 g5g6 a7a5 g6h7 a8a6 h7g8r",
	"a2a3 h7h5 b2b3 h5h4 c2c3 h4h3 d2d3 h3g2 e2e3 g2h1n",
	"h2h3 a7a5 g2g3 a5a4 f2f3 a4a3 e2e3 a3b2 d2d3 b2a1r",
	"a2a4 b7b5 a4b5 a7a6 b5a6 c8b7 a6b7 d7d5 b7a8q h7h5 h2h4",
	"b2b4 a7a5 b4a5 b7b6 a5b6 c8a6 b6b7 d7d6 b7a8n",
}

// genCrowdedSet: games which continue such a prelude, preferring moves whose SAN needs both
// the file and the rank of the origin square.  They contain promotions, so only the SAN and
// PGN readers can be fed with them.
func genCrowdedSet(r *Rng, nGames int) (*bookSet, int, int) {
	bs := &bookSet{}
	both, bothCaptures := 0, 0
	start := rc.MustFEN(rc.StartFEN)
	// games (found once by a random search with refchess) that end in a capture whose SAN needs
	// file and rank of the origin; one or two of them open every crowded collection
	for _, w := range []string{crowdedWitness[r.Intn(len(crowdedWitness))], crowdedWitness[r.Intn(len(crowdedWitness))]} {
		b := start
		var ms []rc.Move
		ok := true
		for _, u := range strings.Fields(w) {
			found := false
			for _, l := range b.Legal() {
				if l.UCI() == u {
					ms = append(ms, l)
					b = b.Apply(l)
					found = true
					break
				}
			}
			if !found {
				ok = false
				break
			}
		}
		if !ok || len(ms) == 0 {
			continue
		}
		if g, ok := replayGame(start, ms); ok && reBothDisambig.MatchString(g.SANs[len(g.SANs)-1]) {
			bs.Games = append(bs.Games, g)
			both++
			bothCaptures++
		}
	}
	for tries := 0; len(bs.Games) < nGames && tries < nGames*20; tries++ {
		b := start
		var ms []rc.Move
		ok := true
		for _, u := range strings.Fields(crowdedPreludes[r.Intn(len(crowdedPreludes))]) {
			found := false
			for _, l := range b.Legal() {
				if l.UCI() == u {
					ms = append(ms, l)
					b = b.Apply(l)
					found = true
					break
				}
			}
			if !found {
				ok = false
				break
			}
		}
		if !ok {
			continue
		}
		// random continuations (moves of the kind of piece that was promoted preferred) until
		// one reaches a move whose SAN needs file and rank; keep that line plus a short tail
		promoted := byte('N')
		if last := ms[len(ms)-1]; last.Kind == rc.Promotion || true {
			for _, m := range ms {
				if m.Kind == rc.Promotion {
					promoted = m.UCI()[4] - 32
				}
			}
		}
		base, baseB := ms, b
		found := false
		for attempt := 0; attempt < 120 && !found; attempt++ {
			ms, b = append([]rc.Move(nil), base...), baseB
			n := 4 + r.Intn(24)
			for i := 0; i < n; i++ {
				legal := b.Legal()
				if len(legal) == 0 {
					break
				}
				// group by (piece, target): three or more pieces of one kind reaching one square
				cnt := map[[2]int]int{}
				for _, l := range legal {
					cnt[[2]int{int(b.Sq[l.From]), l.To}]++
				}
				var special []rc.Move
				for _, l := range legal {
					if cnt[[2]int{int(b.Sq[l.From]), l.To}] >= 3 && reBothDisambig.MatchString(b.SAN(l, rc.SanOpts{})) {
						special = append(special, l)
					}
				}
				// captures first: "Nb4xd5" is read by the SAN parser proper, while "Nb4d5" happens
				// to look like a coordinate move to the book reader
				var caps []rc.Move
				for _, l := range special {
					if b.Sq[l.To] != 0 {
						caps = append(caps, l)
					}
				}
				if len(caps) > 0 {
					special = caps
					bothCaptures++
				} else if len(special) > 0 && attempt < 100 {
					special = nil // keep looking for a capture of this kind
				}
				var pick rc.Move
				if len(special) > 0 {
					pick = special[r.Intn(len(special))]
					both++
					found = true
				} else {
					pick = legal[r.Intn(len(legal))]
					for try := 0; try < 6; try++ {
						c := legal[r.Intn(len(legal))]
						if p := b.Sq[c.From]; p == promoted || p == promoted+32 {
							pick = c
							break
						}
					}
				}
				ms = append(ms, pick)
				b = b.Apply(pick)
				if found && r.Chance(0.4) {
					break
				}
			}
		}
		if g, ok := replayGame(start, ms); ok {
			bs.Games = append(bs.Games, g)
		}
	}
	return bs, both, bothCaptures
}
