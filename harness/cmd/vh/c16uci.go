package main

import (
	"github.com/frankkopp/FrankyGo/internal/search"
	"sync/atomic"
	"fmt"
	"strings"
	"time"

	rc "github.com/frankkopp/FrankyGo/verifh/refchess"
)

// hostile UCI sessions: valid command lines with tokens deleted, duplicated,
// swapped, arguments missing, unknown tokens, invalid FENs / moves, long lines.

var uciSeedLines = []string{
	"uci", "isready", "ucinewgame", "stop", "ponderhit", "debug on", "register later", "noop",
	"position startpos", "position startpos moves e2e4 e7e5 g1f3", "position fen " + rc.StartFEN,
	"position fen r3k2r/p1ppqpb1/bn2pnp1/3PN3/1p2P3/2N2Q1p/PPPBBPPP/R3K2R w KQkq - 0 1 moves e1g1 e8c8",
	"position fen 8/1P6/6k1/8/8/8/p1K5/8 w - - 0 1 moves b7b8q a2a1n",
	"go depth 2", "go nodes 500", "go movetime 15", "go wtime 300 btime 300 winc 5 binc 5 movestogo 10", "go infinite", "go ponder wtime 400 btime 400",
	"go depth 2 searchmoves e2e4 d2d4", "go mate 2", "go depth 1 nodes 100 movetime 20",
	"setoption name Hash value 4", "setoption name Use_Hash value true", "setoption name Clear Hash", "setoption name Print Config",
	"setoption name Use_Book value false", "setoption name Quiescence value true", "setoption name Ponder value true", "perft 2", "perft 1 2",
}

var uciJunk = []string{"", " ", "\t", "xyzzy", "go", "position", "position fen", "position moves", "position fen moves e2e4", "position startpos moves", "position startpos moves e2e5",
	"position startpos moves e2e4 e2e4", "position fen 8/8/8/8/8/8/8/8 w - - 0 1", "position fen rnbqkbnrr/pppppppp/8/8/8/8/PPPPPPPP/RNBQKBNR w KQkq - 0 1",
	"position fen 9/8/8/8/8/8/8/8 w - -", "position fen rnbqkbnr/pppppppp/8/8/8/8/PPPPPPPP/RNBQKBNR w KQkq e1 0 1", "position fen k7/8/8/8/8/8/8/7K x - - 0 1",
	"go depth", "go nodes", "go movetime", "go wtime", "go btime", "go winc", "go binc", "go movestogo", "go mate", "go depth x", "go nodes -5", "go movetime 99999999999999999999",
	"go wtime 0 btime 0", "go wtime -100 btime -100", "go searchmoves", "go moves", "go moves e2e4", "go depth 2 depth", "setoption", "setoption name", "setoption name Hash", "setoption name Hash value",
	"setoption name Hash value abc", "setoption name Hash value -1", "setoption name Hash value 0", "setoption value 3", "setoption name Nonexistent value 1", "setoption name Use_Hash value maybe",
	"perft", "perft x", "perft 1 x", "debug", "register", "ucinewgame ucinewgame", "isready isready", "stop stop", "ponderhit now",
}

// uciModel tracks which positions the engine may legitimately hold.
type uciModel struct {
	cur string // FEN the engine must hold if the last position command was fully valid / ignored
}

// judgePosition computes the acceptable outcomes of a (possibly malformed)
// position command: always "unchanged"; additionally base + maximal legal
// prefix of the listed moves if the base can be determined.
func judgePosition(line string, cur string) (cands []string, judged bool) {
	cands = []string{cur}
	tok := strings.Fields(line)
	if len(tok) < 2 || tok[0] != "position" {
		return cands, true
	}
	var base *rc.Board
	i := 1
	switch tok[1] {
	case "startpos":
		base = rc.MustFEN(rc.StartFEN)
		i = 2
	case "fen":
		i = 2
		var f []string
		for i < len(tok) && tok[i] != "moves" {
			f = append(f, tok[i])
			i++
		}
		if len(f) == 0 {
			return cands, true
		}
		full := append([]string{}, f...)
		defaults := []string{"", "w", "-", "-", "0", "1"}
		for len(full) < 6 {
			full = append(full, defaults[len(full)])
		}
		b, err := rc.ParseFEN(strings.Join(full, " "))
		if err != nil || b.Validate() != nil || !epConsistent(b) {
			// refchess rejects it: if the engine accepts it we cannot say what it should hold
			return cands, false
		}
		if b.Full == 0 {
			b.Full = 1
		}
		base = b
	default:
		return cands, true
	}
	b := base
	if i < len(tok) {
		if tok[i] != "moves" {
			return append(cands, base.FEN()), true
		}
		i++
		for ; i < len(tok); i++ {
			var next *rc.Board
			for _, m := range b.Legal() {
				if strings.EqualFold(m.UCI(), tok[i]) {
					next = b.Apply(m)
					break
				}
			}
			if next == nil {
				break
			}
			b = next
		}
	}
	return append(cands, b.FEN()), true
}

func mutateLine(r *Rng, line string) string {
	tok := strings.Fields(line)
	if len(tok) == 0 {
		return line
	}
	switch r.Intn(9) {
	case 0: // delete a token
		k := r.Intn(len(tok))
		tok = append(tok[:k], tok[k+1:]...)
	case 1: // duplicate a token
		k := r.Intn(len(tok))
		tok = append(tok[:k+1], tok[k:]...)
	case 2: // swap two tokens
		a, b := r.Intn(len(tok)), r.Intn(len(tok))
		tok[a], tok[b] = tok[b], tok[a]
	case 3: // truncate
		tok = tok[:r.Intn(len(tok))+1]
	case 4: // unknown token inserted
		k := r.Intn(len(tok) + 1)
		ins := []string{"foo", "-1", "0", "99999999999", "e9e9", "a1a1", "moves", "value", "name", "fen", "\x00", "ß"}[r.Intn(12)]
		tok = append(tok[:k], append([]string{ins}, tok[k:]...)...)
	case 5: // corrupt one token
		k := r.Intn(len(tok))
		b := []byte(tok[k])
		if len(b) > 0 {
			b[r.Intn(len(b))] = "xq9/-K "[r.Intn(7)]
		}
		tok[k] = string(b)
	case 6: // very long line
		return line + strings.Repeat(" e2e4", 2000+r.Intn(3000))
	case 7: // whitespace games
		return "  " + strings.Join(tok, " \t  ") + "   "
	case 8: // keep as is
	}
	return strings.Join(tok, " ")
}

var manyQueens = []string{
	"qqqqqqqk/6qq/8/8/8/8/QQ6/KQQQQQQQ w - - 0 1",
	"qqqqqqqk/6qq/8/8/8/8/QQ6/KQQQQQQQ b - - 0 1",
	"kqqqqqqq/qq6/8/8/8/8/6QQ/QQQQQQQK w - - 0 1",
}

const deepGoLine = "go depth 8 nodes 1500000"

// optionBurst lines never change the position.
var optionBurst = []string{
	"setoption name Use_Hash value false", "setoption name Use_Hash value true", "setoption name Hash value 1", "setoption name Hash value 3",
	"setoption name Clear Hash", "setoption name Print Config", "setoption name Ponder value false", "setoption name Use_QHash value false", "setoption name Use_QHash value true",
	"setoption name Eval_Lazy value true", "setoption name Eval_Lazy value false",
}

func c16uci(c *Ctx) {
	rep := c.Rep
	nSess := c.Size(400, 20000)
	caseIdx := 1 << 20 // risky-case numbering distinct from the fen part
	// searches entered / left (trace events of the verif hook): configuration is process
	// global, so the next session must not begin while a search of the last one still runs
	var runsActive int64
	search.VerifTraceHook = func(ev string, a, b int64) {
		switch ev {
		case "run-enter":
			atomic.AddInt64(&runsActive, 1)
		case "run-exit":
			atomic.AddInt64(&runsActive, -1)
		}
	}
	defer func() { search.VerifTraceHook = nil }()
	var lastScript []string
	unansweredIsready := 0
	for sid := 0; sid < nSess; sid++ {
		if !c.Mine(sid) {
			continue
		}
		r := SubRng(c.Seed, "c16/uci", sid)
		if n := atomic.LoadInt64(&runsActive); n != 0 {
			t0 := time.Now()
			for atomic.LoadInt64(&runsActive) != 0 && time.Since(t0) < 30*time.Second {
				time.Sleep(5 * time.Millisecond)
			}
			rep.Inc("uci_search_outlived_session")
			if atomic.LoadInt64(&runsActive) != 0 {
				rep.Viol("uci:search-still-running-after-quit", fmt.Sprintf("30 s after the session was ended with stop / isready / quit a search of its engine is still running (script %q)", trimAll(lastScript, 60)), map[string]interface{}{"script": trimAll(lastScript, 200)})
				atomic.StoreInt64(&runsActive, 0)
			} else {
				rep.Note(fmt.Sprintf("a search outlived its session by %s (script tail %q)", time.Since(t0), trimAll(lastScript, 60)))
			}
		}
		restoreSearchCfg()
		var u *uciSess
		cur := rc.StartFEN
		nLines := 10 + r.Intn(25)
		var script []string
		for k := 0; k < nLines; k++ {
			var line string
			switch r.Intn(3) {
			case 0:
				line = uciJunk[r.Intn(len(uciJunk))]
			case 1:
				line = mutateLine(r, uciSeedLines[r.Intn(len(uciSeedLines))])
			default:
				line = uciSeedLines[r.Intn(len(uciSeedLines))]
			}
			f := strings.Fields(line)
			if len(f) > 0 && f[0] == "quit" {
				continue
			}
			if len(f) > 1 && f[0] == "perft" {
				// keep background perft tiny
				for j := 1; j < len(f); j++ {
					if len(f[j]) > 0 && f[j][0] >= '4' && f[j][0] <= '9' {
						f[j] = "2"
					}
				}
				if len(f) > 2 {
					f = f[:2]
				}
				line = strings.Join(f, " ")
			}
			if len(f) > 0 && f[0] == "setoption" {
				// keep requested hash sizes small: sizes up to the advertised maximum
				// (65000 MB) are legitimate requests but would exhaust this sandbox
				for j := range f {
					if n := len(f[j]); n > 2 && f[j][0] >= '0' && f[j][0] <= '9' {
						f[j] = f[j][:2]
					}
				}
				line = strings.Join(f, " ")
			}
			script = append(script, line)
		}
		if sid%9 == 0 {
			// a legal game longer than the position's documented capacity of 512 plies
			n := 516 + r.Intn(120)
			cyc := []string{"g1f3", "g8f6", "f3g1", "f6g8"}
			var ms []string
			for k := 0; k < n; k++ {
				ms = append(ms, cyc[k%4])
			}
			script = append(script, "position startpos moves "+strings.Join(ms, " "), "go depth 2")
			rep.Inc("uci_long_game_lines")
		}
		if sid%12 == 7 {
			// a deep search on a board crowded with heavy pieces (more than 64 legal moves) with
			// move-count based heuristics switched off by option commands: this one is not
			// stopped, its bestmove is awaited
			var hb *rc.Board
			for try := 0; try < 400; try++ {
				hb = heavyPosition(r)
				if len(hb.Legal()) > 66 {
					break
				}
			}
			if r.Chance(0.4) {
				// open boards with nine queens a side: nearly every one of 80+ moves is quiet
				hb = rc.MustFEN(manyQueens[r.Intn(len(manyQueens))])
			}
			script = append(script, "setoption name Use_Lmp value "+[]string{"false", "false", "false", "true"}[r.Intn(4)], "setoption name Use_Lmr value "+[]string{"true", "true", "true", "false"}[r.Intn(4)], "position fen "+hb.FEN(), deepGoLine)
			rep.Inc("uci_deep_searches_on_crowded_boards")
		}
		rep.Inc("uci_sessions")
		lastScript = script
		for k, line := range script {
			caseIdx++
			desc := line
			if len(desc) > 200 {
				desc = desc[:200] + fmt.Sprintf("...(%d bytes)", len(line))
			}
			if !c.Case(caseIdx, fmt.Sprintf("uci session %d line %d: %q (script so far: %q)", sid, k, desc, trimAll(script[:k], 80))) {
				continue
			}
			if u == nil {
				u = newUciSess()
				u.send("setoption name Use_Book value false")
				if sid%4 == 1 {
					// cold start: the script meets a handler that has not seen isready or go
					// yet (lazily created parts of the engine do not exist)
					rep.Inc("uci_cold_start_sessions")
				} else {
					u.send("setoption name Hash value 2")
					u.send("position startpos")
					if ok, _ := u.sync(30 * time.Second); !ok {
						rep.Viol("uci:setup-no-readyok", "no readyok after set-up", nil)
						break
					}
				}
				cur = rc.StartFEN
			}
			rep.Eval(1)
			rep.Inc("uci_lines")
			rep.DistinctStr(line)
			if r.Chance(0.2) {
				// a burst of option commands without isready in between: intermediate states
				// (table switched off, resized, switched on again) are not repaired by the
				// initialisation an isready triggers
				nb := 1 + r.Intn(4)
				var burst []string
				for j := 0; j < nb; j++ {
					burst = append(burst, optionBurst[r.Intn(len(optionBurst))])
				}
				for _, bl := range burst {
					u.send(bl)
				}
				rep.Inc("uci_option_bursts")
				desc = fmt.Sprintf("%s (preceded without isready by %q)", desc, burst)
			}
			u.send(line)
			f := strings.Fields(line)
			if line == deepGoLine {
				if _, ok, _ := u.waitFor(isBestmove, 180*time.Second); !ok {
					u.send("stop")
					if _, ok2, _ := u.waitFor(isBestmove, 30*time.Second); !ok2 {
						rep.Viol("uci:no-bestmove:deep-search-on-crowded-board", fmt.Sprintf("%q gives no bestmove within 180 s and none within 30 s after stop (script %q)", line, trimAll(script[:k], 80)), map[string]interface{}{"session": sid, "transcript_tail": u.transcript(30)})
						u.dispose()
						u = nil
						continue
					}
				}
			} else if len(f) > 0 && (f[0] == "go" || f[0] == "perft") {
				time.Sleep(time.Duration(r.Intn(3000)) * time.Microsecond)
				if r.Chance(0.3) {
					// option commands arriving while whatever the line started is still running
					nb := 1 + r.Intn(3)
					var burst []string
					for j := 0; j < nb; j++ {
						burst = append(burst, optionBurst[r.Intn(len(optionBurst))])
					}
					for _, bl := range burst {
						u.send(bl)
					}
					rep.Inc("uci_options_during_search")
					desc = fmt.Sprintf("%s (followed while running by %q)", desc, burst)
					time.Sleep(time.Duration(r.Intn(3000)) * time.Microsecond)
				}
				if r.Chance(0.3) && unansweredIsready < 3 {
					// isready has to be answered while whatever the line started is still running
					rep.Inc("uci_isready_before_stop")
					if ok, _ := u.sync(20 * time.Second); !ok {
						dl, sig := provenDeadlock()
						k := "uci:isready-unanswered-while-searching"
						if dl {
							k += ":deadlock:" + sig
						}
						unansweredIsready++ // every further one costs 20 s and proves nothing new
						rep.Viol(k+":"+cmdClass(line), fmt.Sprintf("after line %q (no stop sent yet) the engine does not answer isready within 20 s (%s)", desc, sig), map[string]interface{}{"session": sid, "line": desc, "transcript_tail": u.transcript(30)})
						// (the loop does not read any more: writing to its pipe would block for good)
						u.dispose()
						u = nil
						continue
					}
				}
				u.send("stop")
			}
			ok, _ := u.sync(20 * time.Second)
			payload := map[string]interface{}{"session": sid, "line": desc, "transcript_tail": u.transcript(30)}
			if !ok {
				dl, sig := provenDeadlock()
				k := "uci:unresponsive-after-line"
				if dl {
					k += ":deadlock:" + sig
				}
				rep.Viol(k+":"+cmdClass(line), fmt.Sprintf("after line %q the engine does not answer isready within 20 s (%s)", desc, sig), payload)
				u.dispose()
				u = nil // abandon this handler
				continue
			}
			got := u.h.VerifPositionFen()
			cands, judged := judgePosition(line, cur)
			if strings.Contains(line, "ucinewgame") {
				cands = append(cands, rc.StartFEN)
			}
			match := false
			for _, cand := range cands {
				if cand == got {
					match = true
				}
			}
			if got == "<nil>" {
				rep.Viol("uci:position-lost:"+cmdClass(line), fmt.Sprintf("after line %q the engine holds no position at all", desc), payload)
				u.quit(5 * time.Second)
				u = nil
				continue
			}
			if !match {
				if judged {
					rep.Viol("uci:wrong-position-after:"+cmdClass(line), fmt.Sprintf("after line %q the engine holds %q; acceptable: %q", desc, got, cands), payload)
				} else {
					rep.Inc("uci_position_unjudged")
				}
			}
			cur = got
			if len(f) > 0 && f[0] == "position" {
				rep.Inc("uci_position_lines")
			}
			// the engine must still be able to search
			if r.Chance(0.15) {
				b, err := rc.ParseFEN(cur)
				if err == nil && len(b.Legal()) > 0 {
					// the search of the hostile line may still be on its way out after readyok:
					// its late bestmove must not be taken for the probe's
					for t0 := time.Now(); atomic.LoadInt64(&runsActive) != 0 && time.Since(t0) < 10*time.Second; {
						time.Sleep(time.Millisecond)
					}
					u.poll()
					u.send("go depth 1 nodes 50000")
					if _, ok, _ := u.waitFor(isBestmove, 30*time.Second); !ok {
						rep.Viol("uci:no-bestmove-after-hostile-line:"+cmdClass(line), fmt.Sprintf("go depth 1 after line %q gives no bestmove", desc), payload)
						u.dispose()
						u = nil
						continue
					}
					rep.Inc("uci_probe_searches")
				}
			}
		}
		if u != nil {
			if !u.quit(10 * time.Second) {
				rep.Viol("uci:quit-ignored", "quit does not end the loop after a hostile session", map[string]interface{}{"session": sid, "script": trimAll(script, 100)})
			}
		}
		if sid < 2 {
			rep.Sample(map[string]interface{}{"hostile_session": trimAll(script, 100)})
		}
	}
}

func cmdClass(line string) string {
	f := strings.Fields(line)
	if len(f) == 0 {
		return "empty"
	}
	c := f[0]
	if len(c) > 12 {
		c = c[:12]
	}
	for _, r := range c {
		if r < 'a' || r > 'z' {
			return "garbled"
		}
	}
	if len(f) > 1 && (c == "go" || c == "position" || c == "setoption") {
		s := f[1]
		if len(s) > 10 {
			s = s[:10]
		}
		ok := true
		for _, r := range s {
			if r < 'a' || r > 'z' {
				ok = false
			}
		}
		if ok {
			return c + "-" + s
		}
	}
	return c
}

func trimAll(ss []string, n int) []string {
	r := make([]string, len(ss))
	for i, s := range ss {
		if len(s) > n {
			s = s[:n] + "..."
		}
		r[i] = s
	}
	return r
}
