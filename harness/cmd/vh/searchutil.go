package main

import (
	"sync"
	"time"

	"github.com/frankkopp/FrankyGo/internal/config"
	"github.com/frankkopp/FrankyGo/internal/moveslice"
	"github.com/frankkopp/FrankyGo/internal/position"
	"github.com/frankkopp/FrankyGo/internal/search"
	"github.com/frankkopp/FrankyGo/internal/types"
)

// capDriver implements uciInterface.UciDriver and records what a GUI would be sent.
type iterInfo struct {
	Depth, SelDepth int
	Value           types.Value
	Nodes           uint64
	Pv              []types.Move
}

type resInfo struct {
	Best, Ponder types.Move
	At           time.Time
}

type capDriver struct {
	mu       sync.Mutex
	Iter     []iterInfo
	Results  []resInfo
	ReadyOk  int
	Infos    []string
	OnResult func(best, ponder types.Move)
}

func (d *capDriver) SendReadyOk() { d.mu.Lock(); d.ReadyOk++; d.mu.Unlock() }
func (d *capDriver) SendInfoString(info string) {
	d.mu.Lock()
	if len(d.Infos) < 50 {
		d.Infos = append(d.Infos, info)
	}
	d.mu.Unlock()
}
func (d *capDriver) SendIterationEndInfo(depth int, seldepth int, value types.Value, nodes uint64, nps uint64, t time.Duration, pv moveslice.MoveSlice) {
	cp := make([]types.Move, len(pv))
	copy(cp, pv)
	d.mu.Lock()
	d.Iter = append(d.Iter, iterInfo{depth, seldepth, value, nodes, cp})
	d.mu.Unlock()
}
func (d *capDriver) SendAspirationResearchInfo(depth int, seldepth int, value types.Value, bound string, nodes uint64, nps uint64, t time.Duration, pv moveslice.MoveSlice) {
}
func (d *capDriver) SendCurrentRootMove(currMove types.Move, moveNumber int)                     {}
func (d *capDriver) SendSearchUpdate(depth int, seldepth int, nodes uint64, nps uint64, t time.Duration, hashfull int) {}
func (d *capDriver) SendCurrentLine(moveList moveslice.MoveSlice)                                {}
func (d *capDriver) SendResult(best types.Move, ponder types.Move) {
	d.mu.Lock()
	d.Results = append(d.Results, resInfo{best, ponder, time.Now()})
	cb := d.OnResult
	d.mu.Unlock()
	if cb != nil {
		cb(best, ponder)
	}
}
func (d *capDriver) Reset() {
	d.mu.Lock()
	d.Iter, d.Results, d.Infos = nil, nil, nil
	d.mu.Unlock()
}
func (d *capDriver) NumResults() int { d.mu.Lock(); defer d.mu.Unlock(); return len(d.Results) }

func newSearch(ttMB int) (*search.Search, *capDriver) {
	config.Settings.Search.TTSize = ttMB
	config.Settings.Search.UseBook = false
	s := search.NewSearch()
	d := &capDriver{}
	s.SetUciHandler(d)
	return s, d
}

// runSearch starts a search and waits for its end.
func runSearch(s *search.Search, p *position.Position, l search.Limits) search.Result {
	s.StartSearch(*p, l)
	s.WaitWhileSearching()
	return s.LastSearchResult()
}

// search configuration ------------------------------------------------------

var defaultSearchCfg = config.Settings.Search

func restoreSearchCfg() {
	tt := config.Settings.Search.TTSize
	config.Settings.Search = defaultSearchCfg
	config.Settings.Search.UseBook = false
	config.Settings.Search.TTSize = tt
}

// pruneSwitches are the heuristics of C07 (skip moves / cut nodes).
type pruneSwitches struct {
	FP, LMP, LMR, Null, Razor, RFP, QFP bool
}

func (ps pruneSwitches) apply() {
	c := &config.Settings.Search
	c.UseFP, c.UseLmp, c.UseLmr, c.UseNullMove, c.UseRazoring, c.UseRFP, c.UseQFP = ps.FP, ps.LMP, ps.LMR, ps.Null, ps.Razor, ps.RFP, ps.QFP
}

func pruneFromMask(m int) pruneSwitches {
	return pruneSwitches{m&1 != 0, m&2 != 0, m&4 != 0, m&8 != 0, m&16 != 0, m&32 != 0, m&64 != 0}
}
