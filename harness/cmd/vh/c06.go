package main

import (
	"fmt"

	"github.com/frankkopp/FrankyGo/internal/config"
	"github.com/frankkopp/FrankyGo/internal/evaluator"
	"github.com/frankkopp/FrankyGo/internal/movegen"
	"github.com/frankkopp/FrankyGo/internal/position"
	"github.com/frankkopp/FrankyGo/internal/search"
	"github.com/frankkopp/FrankyGo/internal/types"
	rc "github.com/frankkopp/FrankyGo/verifh/refchess"
)

func init() {
	register(&CheckSpec{
		ID: "C06", Fn: c06,
		Rule:        "clause 1: one evaluation = one depth-d search with every unsound heuristic off (quiescence, razoring, RFP, null move, FP, QFP, LMP, LMR, extensions, TT value cuts, eval TT) under one on/off combination of the sound switches (PVS, killer, history counter, counter moves, IID with IIDDepth=2/IIDReduction=1, MDP, TT for ordering) whose BestValue and BestMove are compared with a pruning-free negamax written in the harness (engine Position/movegen/Evaluate, the engine's draw rule after each move, terminal scores -mate+ply / 0, leaves evaluated on a FEN-fresh position); clause 2: quiescence on, root value identical across the sampled / all 128 combinations; in both clauses part of the searches with the ordering-only table run on a table warmed by an earlier (deeper) search of the same root on the same Search object; distinct = distinct (root identity, depth, mask)",
		Assumptions: []string{"the reference shares Position, move generation and Evaluate with the engine (judged by C01-C04, C15) but no search code", "roots that are already drawn by history are excluded (C05 covers them)"},
		Required:    []string{"searches", "reference_nodes", "roots", "roots_single_move", "depth3_or_more", "mate_scores_seen", "draw_by_repetition_in_tree", "qs_groups", "masks_with_iid", "masks_without_pvs", "promotions_in_tree", "deep_mate_ending_roots", "mates_of_different_length_in_tree", "warm_table_searches", "warm_table_searches_qs"},
		MinEvals:    500,
		TimeoutQ:    20 * 60e9,
		TimeoutT:    180 * 60e9,
	})
}

type soundMask int

const (
	smPVS soundMask = 1 << iota
	smKiller
	smHistory
	smCounter
	smIID
	smMDP
	smTTOrder
)

func applySound(m soundMask, quiescence bool) string {
	c := &config.Settings.Search
	restoreSearchCfg()
	c.UseQuiescence = quiescence
	c.UseRazoring, c.UseRFP, c.UseNullMove, c.UseFP, c.UseQFP, c.UseLmp, c.UseLmr = false, false, false, false, false, false, false
	c.UseExt, c.UseExtAddDepth, c.UseCheckExt, c.UseThreatExt = false, false, false, false
	c.UseTTValue, c.UseEvalTT = false, false
	c.UseAspiration, c.UseMTDf = false, false
	c.UsePVS = m&smPVS != 0
	c.UseKiller = m&smKiller != 0
	c.UseHistoryCounter = m&smHistory != 0
	c.UseCounterMoves = m&smCounter != 0
	c.UseIID = m&smIID != 0
	c.IIDDepth, c.IIDReduction = 2, 1
	c.UseMDP = m&smMDP != 0
	c.UseTT = m&smTTOrder != 0
	c.UseTTMove = m&smTTOrder != 0
	c.UseQSTT = m&smTTOrder != 0
	return fmt.Sprintf("sound-mask=%07b(PVS=%v,Killer=%v,Hist=%v,Counter=%v,IID=%v,MDP=%v,TTorder=%v) qs=%v", int(m), c.UsePVS, c.UseKiller, c.UseHistoryCounter, c.UseCounterMoves, c.UseIID, c.UseMDP, c.UseTT, quiescence)
}

// sparse endings with a forced mate in 2-3 and slower mates beside it; searched to
// depth 5-6 so that mates of different length lie inside the horizon
var c06MateEndings = []string{
	"3k4/8/4K3/8/8/8/8/R7 w - - 0 1",
	"3k4/8/4K3/8/8/8/8/Q7 w - - 0 1",
	"7k/8/8/8/8/8/R7/1R5K w - - 0 1",
	"k7/8/2K5/8/8/8/8/7R w - - 0 1",
	"7k/8/5K2/8/8/8/8/1Q6 w - - 0 1",
	"6k1/8/5K2/8/8/8/8/2R5 w - - 0 1",
	"k7/2K5/8/8/8/8/8/5B1N w - - 0 1",
	"7k/5K2/8/6N1/8/8/8/4B3 w - - 0 1",
	"5k2/8/4K3/8/8/8/8/RQ6 w - - 0 1",
	"8/8/8/8/8/1K6/5Q2/k7 w - - 0 1",
}

type refSearch struct {
	matePlies map[int]bool
	mgs      []*movegen.Movegen
	ev       *evaluator.Evaluator
	nodes    int64
	sawMate  bool
	sawRep   bool
	sawPromo bool
	over24   bool
}

func (rs *refSearch) negamax(p *position.Position, d int, ply int) int {
	rs.nodes++
	if phaseSum(p) > 24 {
		rs.over24 = true
	}
	if d == 0 {
		// the engine's leaf rule with quiescence off: static evaluation, also of mated leaves
		fresh, _ := position.NewPositionFen(p.StringFen())
		return int(rs.ev.Evaluate(fresh))
	}
	ml := rs.mgs[ply].GenerateLegalMoves(p, movegen.GenAll)
	moves := make([]types.Move, len(*ml))
	copy(moves, *ml)
	if len(moves) == 0 {
		if p.HasCheck() {
			rs.sawMate = true
			if rs.matePlies != nil {
				rs.matePlies[ply] = true
			}
			return -int(types.ValueCheckMate) + ply
		}
		return 0
	}
	best := -1 << 30
	for _, m := range moves {
		if m.MoveType() == types.Promotion {
			rs.sawPromo = true
		}
		p.DoMove(m)
		var v int
		if p.CheckRepetitions(2) || p.HalfMoveClock() >= 100 {
			rs.sawRep = true
			v = 0
		} else {
			v = -rs.negamax(p, d-1, ply+1)
		}
		p.UndoMove()
		if v > best {
			best = v
		}
	}
	return best
}

func c06(c *Ctx) {
	rep := c.Rep
	roots := corpusRoots()
	lowBranch := []string{
		"8/8/8/4k3/8/8/4P3/4K3 w - - 0 1", "8/8/8/4k3/8/8/8/KQ6 w - - 0 1", "7k/5K2/5P1p/3p4/6P1/3p4/8/8 w - - 0 1",
		"8/k7/3p4/p2P1p2/P2P1P2/8/8/K7 w - - 0 1", "8/1P6/6k1/8/8/8/p1K5/8 w - - 0 1", "6k1/5ppp/8/8/8/8/5PPP/R5K1 w - - 0 1",
		"7k/8/6KP/8/8/8/8/8 w - - 0 1", "8/8/8/8/8/5k2/4q3/7K w - - 0 1", "k7/8/1K6/8/8/8/8/1R6 w - - 0 1", "8/8/8/8/8/2k5/1q6/K7 w - - 0 1",
		"4k3/8/8/8/8/8/3R4/4K3 w - - 98 80", "4k3/8/8/8/8/8/3R4/4K3 w - - 99 80", "8/7P/8/8/8/1q6/8/K6k w - - 0 1", "k7/2Q5/1K6/8/8/8/8/8 b - - 0 1",
	}
	s, _ := newSearch(2)
	rs := &refSearch{ev: evaluator.NewEvaluator()}
	for i := 0; i < 12; i++ {
		rs.mgs = append(rs.mgs, movegen.NewMoveGen())
	}
	nRoots := c.Size(960, 6000)
	masksPer := c.Size(12, 128)
	for i := 0; i < nRoots; i++ {
		if !c.Mine(i) {
			continue
		}
		r := SubRng(c.Seed, "c06/root", i)
		var start *rc.Board
		low := i%3 == 0
		deepMate := i%24 == 5 // sparse mating endings searched deep enough to hold mates of different length
		if deepMate {
			start = rc.MustFEN(c06MateEndings[r.Intn(len(c06MateEndings))])
			if r.Chance(0.5) {
				start = start.Mirror()
			}
			if r.Chance(0.4) {
				// one random legal move first: the mated side is at the root / the mate gets longer
				if ms := start.Legal(); len(ms) > 0 {
					start = start.Apply(ms[r.Intn(len(ms))])
					start.Half, start.Full = 0, 1
				}
			}
			rep.Inc("deep_mate_ending_roots")
		} else if low {
			start = rc.MustFEN(lowBranch[r.Intn(len(lowBranch))])
		} else {
			start = rc.MustFEN(roots[r.Intn(len(roots))])
		}
		var steps []Step
		sw := i % 5
		if deepMate {
			sw = 0
		}
		switch sw {
		case 1:
			steps = playout(r, start, r.Intn(12), defaultBias)
		case 2:
			steps = buildCycleGame(r, start, 6+r.Intn(14), rep) // repetition half built
		}
		b := start
		if len(steps) > 0 {
			b = steps[len(steps)-1].After
		}
		root := c05root{start: start, steps: steps, b: b, kind: "c06"}
		nLegal := len(b.Legal())
		if nLegal == 0 || root.drawnByHistory() {
			continue
		}
		rep.Inc("roots")
		depth := 1 + r.Intn(3)
		if nLegal <= 10 {
			depth = 2 + r.Intn(3)
		}
		if c.Thorough() && nLegal <= 8 && r.Chance(0.3) {
			depth = 5
		}
		if nLegal > 35 && depth > 2 {
			depth = 2
		}
		if deepMate {
			depth = 6
			if len(b.Legal()) > 26 {
				depth = 5
			}
		}
		refDepth := depth
		if nLegal == 1 {
			refDepth = 1
			rep.Inc("roots_single_move")
		}
		if depth >= 3 {
			rep.Inc("depth3_or_more")
		}
		// reference
		p := root.pos()
		rs.sawMate, rs.sawRep, rs.sawPromo, rs.over24 = false, false, false, false
		rs.matePlies = map[int]bool{}
		n0 := rs.nodes
		rep.Begin(fmt.Sprintf("root %s depth %d (history %d plies)", b.FEN(), depth, len(steps)))
		// per-root-move values
		ml := rs.mgs[0].GenerateLegalMoves(p, movegen.GenAll)
		rootMoves := make([]types.Move, len(*ml))
		copy(rootMoves, *ml)
		childVal := map[types.Move]int{}
		want := -1 << 30
		for _, m := range rootMoves {
			p.DoMove(m)
			var v int
			if p.CheckRepetitions(2) || p.HalfMoveClock() >= 100 {
				v = 0
				rs.sawRep = true
			} else {
				v = -rs.negamax(p, refDepth-1, 1)
			}
			p.UndoMove()
			childVal[m.MoveOf()] = v
			if v > want {
				want = v
			}
		}
		rep.Count("reference_nodes", rs.nodes-n0)
		if rs.sawMate || want > 9000 || want < -9000 {
			rep.Inc("mate_scores_seen")
		}
		if rs.sawRep {
			rep.Inc("draw_by_repetition_in_tree")
		}
		if len(rs.matePlies) >= 2 {
			rep.Inc("mates_of_different_length_in_tree")
		}
		if rs.sawPromo {
			rep.Inc("promotions_in_tree")
		}
		// D1 witness class: the phase sum exceeded 24 in the reference tree or
		// already in the history that led to the root (the root position object is
		// reached by play and carries the drift with it)
		histOver24 := false
		{
			hp := engPos(root.start.FEN())
			if phaseSum(hp) > 24 {
				histOver24 = true
			}
			for _, st := range root.steps {
				hp.DoMove(toEng(st.Move))
				if phaseSum(hp) > 24 {
					histOver24 = true
				}
			}
		}
		tag := ""
		if rs.over24 || histOver24 {
			tag = ":phase-sum-exceeded-24"
		}
		payload := root.desc()
		payload["depth"] = depth
		payload["reference_value"] = want
		// clause 1
		for k := 0; k < masksPer; k++ {
			m := soundMask(r.Intn(128))
			if masksPer >= 128 {
				m = soundMask(k)
			} else if deepMate && k < 4 {
				// mate endings: always include the plain and the MDP-only configurations
				m = []soundMask{smMDP, 0, smMDP | smPVS, 127}[k]
			}
			desc := applySound(m, false)
			if m&smIID != 0 {
				rep.Inc("masks_with_iid")
			}
			if m&smPVS == 0 {
				rep.Inc("masks_without_pvs")
			}
			s.NewGame()
			if m&smTTOrder != 0 && r.Chance(0.4) {
				// a table used for ordering only may be warm: an earlier (deeper, when that is
				// cheap) search of the same root on the same Search object must not change values
				wd := depth
				if depth <= 3 {
					wd = depth + 1
				}
				runSearch(s, root.pos(), search.Limits{Depth: wd})
				rep.Inc("warm_table_searches")
				desc += " warm-table(after depth " + fmt.Sprint(wd) + ")"
			}
			res := runSearch(s, root.pos(), search.Limits{Depth: depth})
			rep.Eval(1)
			rep.Inc("searches")
			rep.Distinct(hashStr(b.RepKey()) ^ uint64(depth)<<8 ^ uint64(m)<<16)
			pl := map[string]interface{}{}
			for k2, v := range payload {
				pl[k2] = v
			}
			pl["config"] = desc
			pl["engine_value"] = int(res.BestValue)
			pl["engine_bestmove"] = res.BestMove.StringUci()
			if int(res.BestValue) != want {
				rep.Viol("minimax:value-differs"+tag, fmt.Sprintf("depth %d search of %s returns %d, pruning-free minimax gives %d [%s]", depth, b.FEN(), res.BestValue, want, desc), pl)
			} else if cv, ok := childVal[res.BestMove.MoveOf()]; !ok || cv != want {
				rep.Viol("minimax:bestmove-does-not-attain-value"+tag, fmt.Sprintf("depth %d search of %s: best move %s has minimax value %d, root value is %d [%s]", depth, b.FEN(), res.BestMove.StringUci(), cv, want, desc), pl)
			}
			if i < 2 && k == 0 {
				rep.Sample(map[string]interface{}{"root": b.FEN(), "depth": depth, "config": desc, "engine": int(res.BestValue), "minimax": want})
			}
		}
		// clause 2: quiescence on, value identical across masks
		if i%2 == 0 {
			rep.Inc("qs_groups")
			qd := depth
			if qd > 3 {
				qd = 3
			}
			first, firstDesc := 0, ""
			nm := c.Size(8, 128)
			for k := 0; k < nm; k++ {
				m := soundMask(r.Intn(128))
				if nm >= 128 {
					m = soundMask(k)
				}
				desc := applySound(m, true)
				s.NewGame()
				if m&smTTOrder != 0 && k > 0 && r.Chance(0.5) {
					runSearch(s, root.pos(), search.Limits{Depth: qd + 1 + r.Intn(2)})
					rep.Inc("warm_table_searches_qs")
					desc += " warm-table"
				}
				res := runSearch(s, root.pos(), search.Limits{Depth: qd})
				rep.Eval(1)
				rep.Inc("searches")
				rep.Distinct(hashStr(b.RepKey()) ^ uint64(qd)<<8 ^ uint64(m)<<16 ^ 1<<40)
				if k == 0 {
					first, firstDesc = int(res.BestValue), desc
				} else if int(res.BestValue) != first {
					pl := root.desc()
					pl["depth"], pl["config_a"], pl["config_b"], pl["value_a"], pl["value_b"] = qd, firstDesc, desc, first, int(res.BestValue)
					// D1 tag: promotions reachable with a full set of officers
					t2 := tag
					if t2 == "" && phaseSum(root.pos()) >= 21 {
						t2 = ":phase-sum-may-exceed-24-in-quiescence"
					}
					rep.Viol("quiescence:value-depends-on-sound-switches"+t2, fmt.Sprintf("depth %d search with quiescence of %s returns %d under [%s] but %d under [%s]", qd, b.FEN(), first, firstDesc, res.BestValue, desc), pl)
				}
			}
		}
	}
	restoreSearchCfg()
}
