package main

import (
	"fmt"
	"strings"

	"github.com/frankkopp/FrankyGo/internal/movegen"
	"github.com/frankkopp/FrankyGo/internal/position"
	"github.com/frankkopp/FrankyGo/internal/types"
	rc "github.com/frankkopp/FrankyGo/verifh/refchess"
)

// fenProbe feeds one string to NewPositionFen and judges the outcome.
// Returns true if the string was accepted.
func fenProbe(rep *Rep, mg *movegen.Movegen, s string, class string, mustRoundTrip bool) bool {
	rep.Eval(1)
	var p *position.Position
	var err error
	if pn, msg := guard(func() { p, err = position.NewPositionFen(s) }); pn {
		rep.Viol("fen:panic:"+panicClass(msg), fmt.Sprintf("NewPositionFen(%q) panics: %s", s, msg), map[string]interface{}{"fen": s, "class": class})
		return false
	}
	if err != nil || p == nil {
		if p != nil || err == nil {
			rep.Viol("fen:inconsistent-return", fmt.Sprintf("NewPositionFen(%q) returns position=%v err=%v", s, p != nil, err), map[string]interface{}{"fen": s})
		}
		rep.Inc("fen_rejected")
		if mustRoundTrip {
			rep.Viol("fen:legal-position-rejected", fmt.Sprintf("NewPositionFen rejects the FEN of a legal position %q: %v", s, err), map[string]interface{}{"fen": s})
		}
		return false
	}
	rep.Inc("fen_accepted")
	payload := map[string]interface{}{"fen": s, "class": class}
	var f2 string
	if pn, msg := guard(func() { f2 = p.StringFen() }); pn {
		rep.Viol("fen:accepted-but-StringFen-panics", fmt.Sprintf("NewPositionFen(%q) accepted, StringFen panics: %s", s, msg), payload)
		return true
	}
	if mustRoundTrip && f2 != s {
		rep.Viol("fen:roundtrip-not-exact:"+fenFieldDiff(f2, s), fmt.Sprintf("legal position FEN %q comes back as %q", s, f2), payload)
	}
	var p2 *position.Position
	if pn, msg := guard(func() { p2, _ = position.NewPositionFen(f2) }); pn || p2 == nil {
		rep.Viol("fen:own-output-rejected", fmt.Sprintf("NewPositionFen(%q) accepted, but its FEN output %q does not parse (%s)", s, f2, msg), payload)
		return true
	}
	if pn, msg := guard(func() {
		a, b := snapshot(p, nil, false), snapshot(p2, nil, false)
		for _, d := range diffFields(a.Diff(b)) {
			rep.Viol("fen:reparse-differs:"+firstField(d), fmt.Sprintf("NewPositionFen(%q) and the re-parse of its output %q differ: %s", s, f2, d), payload)
		}
		if f3 := p2.StringFen(); f3 != f2 {
			rep.Viol("fen:not-a-fixpoint", fmt.Sprintf("FEN output %q re-parses to %q", f2, f3), payload)
		}
	}); pn {
		rep.Viol("fen:accepted-position-panics:getters", fmt.Sprintf("NewPositionFen(%q) accepted, getters panic: %s", s, msg), payload)
		return true
	}
	// the accepted position must be usable: the engine's own predicates and move
	// generation run on it without failing
	if pn, msg := guard(func() {
		p.HasCheck()
		for sq := types.SqA1; sq <= types.SqH8; sq++ {
			p.IsAttacked(sq, types.White)
			p.IsAttacked(sq, types.Black)
		}
	}); pn {
		rep.Viol("fen:accepted-position-panics:IsAttacked:"+panicClass(msg), fmt.Sprintf("NewPositionFen(%q) accepted, but IsAttacked/HasCheck panic on the result: %s", s, msg), payload)
		return true
	}
	if pn, msg := guard(func() {
		ml := mg.GenerateLegalMoves(p, movegen.GenAll)
		for _, m := range *ml {
			p.DoMove(m)
			p.UndoMove()
		}
	}); pn {
		rep.Viol("fen:accepted-position-panics:movegen:"+panicClass(msg), fmt.Sprintf("NewPositionFen(%q) accepted, but move generation / do-undo panic on the result: %s", s, msg), payload)
	}
	return true
}

func panicClass(msg string) string {
	m := reNum.ReplaceAllString(msg, "N")
	m = strings.TrimPrefix(m, "runtime error: ")
	if len(m) > 50 {
		m = m[:50]
	}
	return strings.ReplaceAll(m, " ", "-")
}

func c16fen(c *Ctx) {
	rep := c.Rep
	mg := movegen.NewMoveGen()
	// (a) legal positions round-trip exactly
	nPlay := c.Size(150, 6000)
	nSynth := c.Size(2000, 80000)
	var seeds []string
	forEachGame(c, "c16", nPlay, 70, nSynth, func(g Game) {
		f := g.Start.FEN()
		rep.Inc("legal_fens")
		rep.DistinctStr(f)
		fenProbe(rep, mg, f, "legal", true)
		if len(seeds) < 400 {
			seeds = append(seeds, f)
		}
		for i, st := range g.Steps {
			if i%4 == 0 {
				rep.Inc("legal_fens")
				fenProbe(rep, mg, st.After.FEN(), "legal", true)
			}
		}
	})
	// (b) grammar-aware mutation
	r := SubRng(c.Seed, "c16/fenmut", c.Shard)
	nMut := c.Size(60000, 3000000) / c.NShards
	alphabet := "pnbrqkPNBRQK12345678/ wb-KQkqabcdefgh09xX*._\t"
	for i := 0; i < nMut; i++ {
		if i%2000 == 0 {
			rep.Begin(fmt.Sprintf("fen mutation batch %d", i/2000))
		}
		base := seeds[r.Intn(len(seeds))]
		fields := strings.Fields(base)
		var s, class string
		switch r.Intn(16) {
		case 0:
			s, class = base[:r.Intn(len(base)+1)], "truncated"
		case 1: // rank overflow: insert a piece or digit into a rank
			ranks := strings.Split(fields[0], "/")
			k := r.Intn(8)
			ins := string("pnbrqkPNBRQK123456789"[r.Intn(21)])
			pos := r.Intn(len(ranks[k]) + 1)
			ranks[k] = ranks[k][:pos] + ins + ranks[k][pos:]
			fields[0] = strings.Join(ranks, "/")
			s, class = strings.Join(fields, " "), "rank-overflow"
		case 2: // rank underflow
			ranks := strings.Split(fields[0], "/")
			k := r.Intn(8)
			if len(ranks[k]) > 0 {
				pos := r.Intn(len(ranks[k]))
				ranks[k] = ranks[k][:pos] + ranks[k][pos+1:]
			}
			fields[0] = strings.Join(ranks, "/")
			s, class = strings.Join(fields, " "), "rank-underflow"
		case 3: // digits 0 and 9, long digit runs
			fields[0] = strings.Replace(fields[0], "8", []string{"9", "0", "44", "17", "71", "99", "80"}[r.Intn(7)], 1+r.Intn(2))
			s, class = strings.Join(fields, " "), "digits"
		case 4: // extra / missing ranks
			if r.Chance(0.5) {
				fields[0] += "/" + []string{"8", "pppppppp", "", "9", "k7"}[r.Intn(5)]
			} else {
				ranks := strings.Split(fields[0], "/")
				fields[0] = strings.Join(ranks[:r.Intn(8)], "/")
			}
			s, class = strings.Join(fields, " "), "rank-count"
		case 5: // every ep square
			fields[3] = rc.SqName(r.Intn(64))
			s, class = strings.Join(fields, " "), "ep-square"
		case 6: // ep garbage
			fields[3] = []string{"e", "e9", "i3", "e33", "-e3", "E3", "a0", "h9", "3e", "--"}[r.Intn(10)]
			s, class = strings.Join(fields, " "), "ep-garbage"
		case 7: // counters
			v := []string{"-1", "99999999999999999999", "1e3", "0x10", "", "abc", "4294967296", "-0", "+5", "2147483648", "9223372036854775807"}[r.Intn(11)]
			fields[4+r.Intn(2)] = v
			s, class = strings.Join(fields, " "), "counters"
		case 8: // side / castling garbage
			if r.Chance(0.5) {
				fields[1] = []string{"W", "x", "wb", "", "|", "w|b"}[r.Intn(6)]
			} else {
				fields[2] = []string{"KQkqK", "QK", "kK", "HAha", "KQkq-", "--", "K Q"}[r.Intn(7)]
			}
			s, class = strings.Join(fields, " "), "side-castling"
		case 9: // drop fields
			s, class = strings.Join(fields[:r.Intn(6)], " "), "missing-fields"
		case 10: // whitespace
			s, class = strings.Replace(base, " ", []string{"  ", "\t", " \t ", "\n"}[r.Intn(4)], 1+r.Intn(3)), "whitespace"
			if r.Chance(0.3) {
				s = "  " + s + " \t"
			}
		case 11: // illegal characters
			b := []byte(base)
			for k := 0; k < 1+r.Intn(3); k++ {
				b[r.Intn(len(b))] = alphabet[r.Intn(len(alphabet))]
			}
			s, class = string(b), "char-replaced"
		case 12: // random bytes
			n := r.Intn(90)
			b := make([]byte, n)
			for k := range b {
				if r.Chance(0.8) {
					b[k] = alphabet[r.Intn(len(alphabet))]
				} else {
					b[k] = byte(r.Intn(256))
				}
			}
			s, class = string(b), "random"
		case 13: // very long
			s, class = strings.Repeat(fields[0]+"/", 1+r.Intn(6))+" w - - 0 1", "long"
			if r.Chance(0.3) {
				s = strings.Repeat("8/", 200) + "8 w - - 0 1"
			}
		case 14: // all slashes / separators in odd places
			s, class = strings.Replace(base, "/", []string{"//", "", "/ /", "\\"}[r.Intn(4)], 1+r.Intn(3)), "separators"
		default: // piece-only variations: ranks that overflow by one exactly at the end
			ranks := strings.Split(fields[0], "/")
			k := r.Intn(8)
			ranks[k] += string("pnbrqkPNBRQK1"[r.Intn(13)])
			fields[0] = strings.Join(ranks, "/")
			s, class = strings.Join(fields, " "), "rank-one-too-long"
		}
		rep.Inc("mut_" + class)
		rep.DistinctStr(s)
		fenProbe(rep, mg, s, class, false)
	}
	rep.Sample(map[string]interface{}{"fen_inputs": []string{"rnbqkbnrr/8/8/8/8/8/8/8 w - - 0 1", "9/8/8/8/8/8/8/8 w - -", seeds[0] + " (legal, must round-trip)"}})
}

func init() {
	register(&CheckSpec{
		ID: "C16", Fn: c16, Resume: true,
		Rule:        "FEN: every string from (a) FENs of legal corpus positions (must round-trip exactly), (b) grammar-aware mutations (truncation at every length, rank over/underflow, digits 0/9, rank count, all 64 ep squares, ep garbage, counter overflow/negative, bad side/castling fields, missing fields, whitespace, replaced characters, separators), (c) random bytes; accepted results must re-parse from their own FEN to the same observables, be a fixpoint and be usable (IsAttacked, move generation, do/undo without panic); UCI: hostile sessions (see c16uci); distinct = distinct input strings / command lines; a quarter of the UCI sessions start cold (no isready or go before the script, so lazily created parts do not exist yet) and a fifth of the lines are preceded by a burst of 1-4 option commands (Use_Hash on/off, Hash resize, Clear Hash, ...) without isready in between; after 30% of the go / perft lines isready is sent before the stop and must be answered while the search runs; 30% of the go / perft lines are followed by 1-3 option commands while the search is still running; one session in 12 ends with option commands switching move-count based heuristics, a position with more than 64 legal moves and a depth-8 search (node cap 1.5 M) whose bestmove is awaited",
		Assumptions: []string{"'well-formed position' = all getters, the attack predicates and move generation work on it, and its FEN output re-parses to the same observables"},
		Required:    []string{"legal_fens", "fen_accepted", "fen_rejected", "mut_truncated", "mut_rank-overflow", "mut_ep-square", "mut_digits", "mut_counters", "mut_random", "uci_sessions", "uci_lines", "uci_position_lines", "uci_probe_searches", "uci_cold_start_sessions", "uci_option_bursts", "uci_isready_before_stop", "uci_options_during_search", "uci_deep_searches_on_crowded_boards"},
		MinEvals:    20000,
	})
}

func c16(c *Ctx) {
	if !c.Restarted() {
		c16fen(c)
		// checkpoint the statistics of the FEN part
		c.Rep.emit(line{T: "stat", Counters: c.Rep.counters, Evals: c.Rep.evals, Distinct: int64(len(c.Rep.hashes)), Samples: c.Rep.samples}, true)
	}
	c16uci(c)
}
