package main

import (
	"fmt"
	"strings"

	"github.com/frankkopp/FrankyGo/internal/config"
	"github.com/frankkopp/FrankyGo/internal/evaluator"
	"github.com/frankkopp/FrankyGo/internal/position"
	rc "github.com/frankkopp/FrankyGo/verifh/refchess"
)

func init() {
	register(&CheckSpec{
		ID: "C15", Fn: c15,
		Rule:        "one evaluation = one Evaluate call compared with a sibling call that must agree: same position again, fresh evaluator, fresh position from FEN vs reached by play, after a do/undo excursion, after 100 unrelated evaluations, colour mirror (refchess mirror: ranks flipped, colours/rights/side swapped, ep flipped); plus position observables unchanged by Evaluate and insufficient material => 0; under 5 evaluation configurations (default, lazy, advanced piece, both, mobility toggled); distinct = distinct (position identity, configuration)",
		Assumptions: []string{"refchess mirror defines colour symmetry", "Evaluate is called single-threaded (as the search does)"},
		Required:    []string{"positions", "mirror_pairs", "play_vs_fen", "insufficient_material_positions", "configs_lazy", "configs_advpiece", "asymmetric_psqt_rows_touched", "lazy_cutoff_taken", "same_position_across_option_change"},
		MinEvals:    20000,
	})
}

type evalCfg struct {
	name           string
	lazy, adv, mob bool
}

var evalCfgs = []evalCfg{
	{"default", false, false, false},
	{"lazy", true, false, false},
	{"advpiece", false, true, false},
	{"lazy+advpiece", true, true, false},
	{"mobility", false, false, true},
}

func setEvalCfg(e evalCfg) {
	config.Settings.Eval.UseLazyEval = e.lazy
	config.Settings.Eval.UseAdvancedPieceEval = e.adv
	config.Settings.Eval.UseMobility = e.mob
}

func c15(c *Ctx) {
	rep := c.Rep
	reused := evaluator.NewEvaluator()
	noise := []*position.Position{}
	for _, f := range curatedFENs[:20] {
		noise = append(noise, engPos(f))
	}
	over24 := false // sticky per game (see over24Tag)
	probe := func(p *position.Position, b *rc.Board, byPlay bool, ctx map[string]interface{}) {
		rep.Inc("positions")
		if phaseSum(p) > 24 {
			over24 = true
		}
		fen := b.FEN()
		// touches one of the two asymmetric PSQT rows? (pawn on rank 5/4 rel., king on rank 3/6 rel.)
		for sq, pc := range b.Sq {
			if (pc == 'P' && rc.Rank(sq) == 3) || (pc == 'p' && rc.Rank(sq) == 4) || (pc == 'K' && rc.Rank(sq) == 2) || (pc == 'k' && rc.Rank(sq) == 5) {
				rep.Inc("asymmetric_psqt_rows_touched")
				break
			}
		}
		for ci, cfg := range evalCfgs {
			if ci > 0 {
				// the last thing the reused evaluator sees under the old options is this very
				// position: nothing computed under them may survive the option change
				reused.Evaluate(p)
				rep.Inc("same_position_across_option_change")
			}
			setEvalCfg(cfg)
			if cfg.lazy {
				rep.Inc("configs_lazy")
			}
			if cfg.adv {
				rep.Inc("configs_advpiece")
			}
			rep.DistinctStr(b.RepKey() + cfg.name)
			mk := func(extra map[string]interface{}) map[string]interface{} {
				r := map[string]interface{}{"fen": fen, "config": cfg.name}
				for k, v := range ctx {
					r[k] = v
				}
				for k, v := range extra {
					r[k] = v
				}
				return r
			}
			before := snapshot(p, nil, true)
			v := int(reused.Evaluate(p))
			after := snapshot(p, nil, true)
			rep.Eval(1)
			if df := before.Diff(after); len(df) > 0 {
				rep.Viol("eval-modifies-position:"+firstField(df[0]), "Evaluate changed the position: "+strings.Join(df, "; "), mk(nil))
			}
			if cfg.lazy {
				// did the lazy cut-off trigger? (value differs from the non-lazy value or is large)
				if v > 700 || v < -700 {
					rep.Inc("lazy_cutoff_taken")
				}
			}
			// repeated
			rep.Eval(1)
			if v2 := int(reused.Evaluate(p)); v2 != v {
				rep.Viol("eval:not-repeatable:"+cfg.name, fmt.Sprintf("two consecutive Evaluate calls give %d and %d on %s", v, v2, fen), mk(nil))
			}
			// fresh evaluator
			rep.Eval(1)
			if v3 := int(evaluator.NewEvaluator().Evaluate(p)); v3 != v {
				rep.Viol("eval:depends-on-instance:"+cfg.name, fmt.Sprintf("reused evaluator %d, fresh evaluator %d on %s", v, v3, fen), mk(nil))
			}
			// after unrelated evaluations
			for _, n := range noise {
				reused.Evaluate(n)
			}
			rep.Eval(1)
			if v4 := int(reused.Evaluate(p)); v4 != v {
				rep.Viol("eval:depends-on-earlier-evaluations:"+cfg.name, fmt.Sprintf("%d before, %d after evaluating other positions, on %s", v, v4, fen), mk(nil))
			}
			// fresh position from FEN
			if byPlay {
				rep.Inc("play_vs_fen")
				rep.Eval(1)
				if v5 := int(reused.Evaluate(engPos(fen))); v5 != v {
					rep.Viol("eval:depends-on-history:"+cfg.name+over24Tag("Evaluate", over24), fmt.Sprintf("position reached by play evaluates to %d, the same position from FEN to %d: %s", v, v5, fen), mk(nil))
				}
			}
			// mirror
			mfen := b.Mirror().FEN()
			rep.Inc("mirror_pairs")
			rep.Eval(1)
			// (both sides of the comparison are built from FEN so that history
			// dependence, judged above, cannot show up as asymmetry)
			vf := int(reused.Evaluate(engPos(fen)))
			if vm := int(reused.Evaluate(engPos(mfen))); vm != vf {
				rep.Viol("eval:not-colour-symmetric:"+cfg.name, fmt.Sprintf("Evaluate=%d on %s but %d on its colour mirror %s", vf, fen, vm, mfen), mk(map[string]interface{}{"mirror": mfen}))
			}
			// insufficient material
			if p.HasInsufficientMaterial() {
				rep.Inc("insufficient_material_positions")
				if v != 0 {
					rep.Viol("eval:insufficient-material-nonzero:"+cfg.name, fmt.Sprintf("HasInsufficientMaterial but Evaluate=%d on %s", v, fen), mk(nil))
				}
			}
		}
		setEvalCfg(evalCfgs[0])
	}
	nPlay := c.Size(150, 40000)
	nSynth := c.Size(2500, 600000)
	sampled := 0
	forEachGame(c, "c15", nPlay, 90, nSynth, func(g Game) {
		p := engPos(g.Start.FEN())
		over24 = false
		probe(p, g.Start, false, map[string]interface{}{"kind": g.Kind})
		for i, st := range g.Steps {
			p.DoMove(toEng(st.Move))
			if phaseSum(p) > 24 {
				over24 = true
			}
			if i%3 == 2 || st.Move.Kind != rc.Normal {
				// a do/undo excursion before evaluating (all legal moves once)
				for _, m := range st.After.Legal() {
					p.DoMove(toEng(m))
					if phaseSum(p) > 24 {
						over24 = true
					}
					p.UndoMove()
				}
				probe(p, st.After, true, map[string]interface{}{"start": g.Start.FEN(), "moves": stepMoves(g.Steps, i+1)})
			}
		}
		if sampled < 2 {
			sampled++
			rep.Sample(map[string]interface{}{"fen": g.Start.FEN(), "mirror": g.Start.Mirror().FEN()})
		}
	})
	// sparse material sweep (insufficient material classes reach Evaluate)
	idx := 0
	for _, w := range multisets([]string{"N", "L", "D"}, 2) {
		for _, b := range multisets([]string{"N", "L", "D"}, 2) {
			idx++
			if !c.Mine(idx) {
				continue
			}
			r := SubRng(c.Seed, "c15/mat", idx)
			for t := 0; t < 4; t++ {
				if bd := placeMaterial(r, w, b); bd != nil {
					probe(engPos(bd.FEN()), bd, false, nil)
				}
			}
		}
	}
}
