package main

import (
	"bufio"
	"encoding/binary"
	"encoding/json"
	"fmt"
	"hash/fnv"
	"io"
	golog "log"
	"os"
	"sort"
	"strings"

	"github.com/frankkopp/FrankyGo/internal/config"
	"github.com/frankkopp/FrankyGo/internal/position"
	"github.com/frankkopp/FrankyGo/internal/types"
	rc "github.com/frankkopp/FrankyGo/verifh/refchess"
)

// ---------------------------------------------------------------------------
// deterministic PRNG (splitmix64)

type Rng struct{ s uint64 }

func NewRng(seed uint64) *Rng { return &Rng{s: seed*0x9E3779B97F4A7C15 + 0x1234567} }

func (r *Rng) U64() uint64 {
	r.s += 0x9E3779B97F4A7C15
	z := r.s
	z = (z ^ (z >> 30)) * 0xBF58476D1CE4E5B9
	z = (z ^ (z >> 27)) * 0x94D049BB133111EB
	return z ^ (z >> 31)
}
func (r *Rng) Intn(n int) int {
	if n <= 0 {
		return 0
	}
	return int(r.U64() % uint64(n))
}
func (r *Rng) Chance(p float64) bool { return float64(r.U64()>>11)/float64(1<<53) < p }

// SubRng derives an independent stream for (seed, label, index).
func SubRng(seed uint64, label string, idx int) *Rng {
	h := fnv.New64a()
	_, _ = h.Write([]byte(label))
	return NewRng(seed ^ h.Sum64() ^ (uint64(idx)+1)*0xD6E8FEB86659FD93)
}

func hashStr(s string) uint64 {
	h := fnv.New64a()
	_, _ = h.Write([]byte(s))
	return h.Sum64()
}

// ---------------------------------------------------------------------------
// child context and reporter

type Ctx struct {
	Check   string
	Tier    string
	Seed    uint64
	Shard   int
	NShards int
	Out     string
	Replay  string
	Race    bool
	Rep     *Rep
	// ResumeAfter: risky cases with index <= ResumeAfter are skipped (the shard is
	// being restarted after a crash or hang in that case).
	ResumeAfter int
}

// Case announces risky case idx (flushed to disk before it runs) and reports
// whether it should be executed.
func (c *Ctx) Case(idx int, desc string) bool {
	if idx <= c.ResumeAfter {
		return false
	}
	// cumulative statistics so far: if this case kills the process the
	// orchestrator still knows what the attempt had covered
	c.Rep.caseCalls++
	if c.Rep.caseCalls%25 == 1 {
		c.Rep.emit(line{T: "stat", Counters: c.Rep.counters, Evals: c.Rep.evals, Distinct: int64(len(c.Rep.hashes)), Samples: c.Rep.samples}, false)
	}
	c.Rep.Begin(fmt.Sprintf("#%d %s", idx, desc))
	return true
}

// Restarted reports whether this shard is being re-run after a crash/hang.
func (c *Ctx) Restarted() bool { return c.ResumeAfter >= 0 }

func (c *Ctx) Thorough() bool { return c.Tier == "thorough" }

// Size picks quick or thorough size.
func (c *Ctx) Size(quick, thorough int) int {
	if c.Thorough() {
		return thorough
	}
	return quick
}

// Mine reports whether global case index i belongs to this shard.
func (c *Ctx) Mine(i int) bool { return i%c.NShards == c.Shard }

type Rep struct {
	f        *os.File
	w        *bufio.Writer
	counters map[string]int64
	evals    int64
	samples  []interface{}
	hashes   map[uint64]struct{}
	violKeys map[string]int
	maxPerKey int
	caseCalls int
}

type line struct {
	T       string           `json:"t"`
	Case    string           `json:"case,omitempty"`
	Key     string           `json:"key,omitempty"`
	Msg     string           `json:"msg,omitempty"`
	Replay  interface{}      `json:"replay,omitempty"`
	Counters map[string]int64 `json:"counters,omitempty"`
	Evals   int64            `json:"evaluations,omitempty"`
	Distinct int64           `json:"distinct,omitempty"`
	Samples []interface{}    `json:"samples,omitempty"`
}

func NewRep(path string) *Rep {
	f, err := os.Create(path)
	if err != nil {
		fmt.Fprintln(os.Stderr, "cannot create out file:", err)
		os.Exit(3)
	}
	return &Rep{f: f, w: bufio.NewWriterSize(f, 1<<16), counters: map[string]int64{}, hashes: map[uint64]struct{}{}, violKeys: map[string]int{}, maxPerKey: 3}
}

func (r *Rep) emit(l line, flush bool) {
	b, _ := json.Marshal(l)
	_, _ = r.w.Write(b)
	_ = r.w.WriteByte('\n')
	if flush {
		_ = r.w.Flush()
	}
}

// Begin records the case about to be executed so that a crash or hang can be
// attributed to it.  Flushed to disk before the case runs.
func (r *Rep) Begin(desc string) { r.emit(line{T: "begin", Case: desc}, true) }

// Note is like Begin but buffered (cheap breadcrumbs).
func (r *Rep) Note(desc string) { r.emit(line{T: "begin", Case: desc}, false) }

func (r *Rep) Viol(key, msg string, replay interface{}) {
	r.violKeys[key]++
	if r.violKeys[key] > r.maxPerKey {
		return
	}
	r.emit(line{T: "viol", Key: key, Msg: msg, Replay: replay}, true)
}
func (r *Rep) Violations() int {
	n := 0
	for _, v := range r.violKeys {
		n += v
	}
	return n
}
func (r *Rep) Inconclusive(msg string) { r.emit(line{T: "inconclusive", Msg: msg}, true) }
func (r *Rep) Count(name string, n int64) { r.counters[name] += n }
func (r *Rep) Inc(name string)            { r.counters[name]++ }
func (r *Rep) Eval(n int64)               { r.evals += n }
// distinctCap bounds the memory of one child: beyond it new identities are no longer
// remembered, so the reported distinct count is a lower bound (counter distinct_cap_reached).
const distinctCap = 6000000

func (r *Rep) Distinct(h uint64) {
	if len(r.hashes) >= distinctCap {
		if _, ok := r.hashes[h]; !ok {
			r.counters["distinct_cap_reached"]++
			return
		}
	}
	r.hashes[h] = struct{}{}
}
func (r *Rep) DistinctStr(s string) { r.Distinct(hashStr(s)) }
func (r *Rep) Sample(v interface{}) {
	if len(r.samples) < 4 {
		r.samples = append(r.samples, v)
	}
}

func (r *Rep) Finish() {
	// suppressed violation counts
	for k, v := range r.violKeys {
		if v > r.maxPerKey {
			r.counters["suppressed_viol:"+k] = int64(v - r.maxPerKey)
		}
	}
	r.emit(line{T: "stat", Counters: r.counters, Evals: r.evals, Distinct: int64(len(r.hashes)), Samples: r.samples}, false)
	r.emit(line{T: "done"}, true)
	_ = r.f.Close()
	// dump hashes for the global distinct count
	hf, err := os.Create(r.f.Name() + ".hashes")
	if err == nil {
		hs := make([]uint64, 0, len(r.hashes))
		for h := range r.hashes {
			hs = append(hs, h)
		}
		sort.Slice(hs, func(i, j int) bool { return hs[i] < hs[j] })
		bw := bufio.NewWriterSize(hf, 1<<16)
		var buf [8]byte
		for _, h := range hs {
			binary.LittleEndian.PutUint64(buf[:], h)
			_, _ = bw.Write(buf[:])
		}
		_ = bw.Flush()
		_ = hf.Close()
	}
}

// ---------------------------------------------------------------------------
// silencing the engine

var realStdout *os.File

func silenceEngine() {
	config.LogLevel = 0
	config.SearchLogLevel = 0
	config.TestLogLevel = 0
	config.Settings.Log.LogPath = "/nonexistent-verif-logs"
	config.Settings.Search.UseBook = false
	golog.SetOutput(io.Discard)
	realStdout = os.Stdout
	if dn, err := os.OpenFile(os.DevNull, os.O_WRONLY, 0); err == nil {
		os.Stdout = dn
	}
}

// ---------------------------------------------------------------------------
// bridge between refchess and the engine

func toEng(m rc.Move) types.Move {
	var t types.MoveType
	pt := types.PtNone
	switch m.Kind {
	case rc.Normal:
		t = types.Normal
	case rc.Promotion:
		t = types.Promotion
		switch m.Promo {
		case 'n':
			pt = types.Knight
		case 'b':
			pt = types.Bishop
		case 'r':
			pt = types.Rook
		case 'q':
			pt = types.Queen
		}
	case rc.EnPassant:
		t = types.EnPassant
	case rc.Castling:
		t = types.Castling
	}
	return types.CreateMove(types.Square(m.From), types.Square(m.To), t, pt)
}

func fromEng(m types.Move) rc.Move {
	r := rc.Move{From: int(m.From()), To: int(m.To())}
	switch m.MoveType() {
	case types.Normal:
		r.Kind = rc.Normal
	case types.Promotion:
		r.Kind = rc.Promotion
		switch m.PromotionType() {
		case types.Knight:
			r.Promo = 'n'
		case types.Bishop:
			r.Promo = 'b'
		case types.Rook:
			r.Promo = 'r'
		case types.Queen:
			r.Promo = 'q'
		}
	case types.EnPassant:
		r.Kind = rc.EnPassant
	case types.Castling:
		r.Kind = rc.Castling
	}
	return r
}

// moveKey is a canonical comparable identity of a move (from,to,type,promo)
func rcKey(m rc.Move) uint32 { return uint32(toEng(m).MoveOf()) }

func engPos(fen string) *position.Position {
	p, err := position.NewPositionFen(fen)
	if err != nil || p == nil {
		panic("harness: engine rejects corpus fen " + fen)
	}
	return p
}

func uciList(ms []rc.Move) string {
	ss := make([]string, len(ms))
	for i, m := range ms {
		ss[i] = m.UCI()
	}
	sort.Strings(ss)
	return strings.Join(ss, " ")
}

func engUciList(ms []types.Move) string {
	ss := make([]string, len(ms))
	for i, m := range ms {
		ss[i] = m.StringUci() + ":" + m.MoveType().String()
	}
	sort.Strings(ss)
	return strings.Join(ss, " ")
}

// guard runs f and converts a panic into (true, message).
func guard(f func()) (panicked bool, msg string) {
	defer func() {
		if r := recover(); r != nil {
			panicked = true
			msg = fmt.Sprint(r)
		}
	}()
	f()
	return
}

func abs(x int) int {
	if x < 0 {
		return -x
	}
	return x
}
