package main

import (
	"fmt"
	"strconv"
	"strings"
	"sync"
	"time"

	"github.com/frankkopp/FrankyGo/internal/search"

	rc "github.com/frankkopp/FrankyGo/verifh/refchess"
)

func init() {
	register(&CheckSpec{
		ID: "C12", Fn: c12,
		Rule:        "one evaluation = one judged protocol step of a generated protocol-valid UCI session fed to the real UciHandler.Loop through pipes (every line sent/received time-stamped): exactly one bestmove per go at every quiescent point; no bestmove of an infinite/ponder search before its stop (or ponderhit); final 'info depth' == limit for depth searches; readyok for every isready also while searching; bestmove after stop within allowance; handler position (verif accessor) == refchess replay of the position command; go depth after ucinewgame == same go on a fresh handler; Print Config before/after every setoption differs in exactly the named field; sessions include zero-delay go-after-bestmove, stop right after go, isready storms, ponderhit early/late; distinct = distinct (session, step) scripts",
		Assumptions: []string{"fresh engine for the ucinewgame clause = a newly created UciHandler in the same process (configuration is process-global)", "stop-promptness allowance 700 ms under parallel load, exceedances re-run serially"},
		Required:    []string{"sessions", "go_commands", "bestmoves", "go_depth", "go_infinite", "go_ponder_stop", "go_ponderhit", "go_ponder_without_clock", "go_movetime", "go_clock", "isready_during_search", "position_checks", "position_with_moves", "newgame_equalities", "newgame_while_hash_off", "setoption_checks", "setoption_with_other_option_non_default", "zero_delay_go_after_bestmove", "stop_right_after_go"},
		MinEvals:    2000,
		TimeoutQ:    25 * 60e9,
		TimeoutT:    150 * 60e9,
	})
}

var optionField = map[string]string{
	"Use_Hash": "UseTT", "Hash": "TTSize", "Use_Book": "UseBook", "Ponder": "UsePonder", "Quiescence": "UseQuiescence", "Use_QHash": "UseQSTT",
	"Use_SEE": "UseSEE", "Use_PromNonQuiet": "UsePromNonQuiet", "Use_PVS": "UsePVS", "Use_ASP": "UseAspiration", "Use_MTDf": "UseMTDf",
	"Use_IID": "UseIID", "Use_Killer": "UseKiller", "Use_HistCount": "UseHistoryCounter", "Use_CounterMove": "UseCounterMoves",
	"Use_Rfp": "UseRFP", "Use_NullMove": "UseNullMove", "Use_Mdp": "UseMDP", "Use_Fp": "UseFP", "Use_Lmr": "UseLmr", "Use_Lmp": "UseLmp",
	"Use_Ext": "UseExt", "Use_ExtAddDepth": "UseExtAddDepth", "Use_CheckExt": "UseCheckExt", "Use_ThreatExt": "UseThreatExt",
	"Eval_Lazy": "UseLazyEval", "Eval_Mobility": "UseMobility", "Eval_AdvPiece": "UseAdvancedPieceEval",
}

var optionNames = func() []string {
	var r []string
	for k := range optionField {
		r = append(r, k)
	}
	return uniqSorted(r)
}()

var c12Reproduced = map[string]bool{}
var c12Unanswered = 0

type c12ctx struct {
	c     *Ctx
	rep   *Rep
	u     *uciSess
	r     *Rng
	board *rc.Board // position the engine should hold
	posCmd string
	goes  int
	bests int
	sid   int
	step  int
	slow  []string
	dead  bool
}

func (x *c12ctx) payload(extra map[string]interface{}) map[string]interface{} {
	m := map[string]interface{}{"session": x.sid, "step": x.step, "transcript_tail": x.u.transcript(40)}
	for k, v := range extra {
		m[k] = v
	}
	return m
}

func (x *c12ctx) note(seen []string) {
	x.bests += countBestmoves(seen)
}

// expectBestmove waits for the bestmove of the running search.
func (x *c12ctx) expectBestmove(what string, timeout time.Duration) (string, []string, bool) {
	l, ok, seen := x.u.waitFor(isBestmove, timeout)
	x.note(seen)
	if !ok {
		dl, sig := provenDeadlock()
		if sig == "no engine goroutine" {
			// nothing is searching and nothing is blocked: the go command was lost
			c12Unanswered++
			x.rep.Viol("go-unanswered:engine-idle", fmt.Sprintf("no bestmove after %s within %s although the engine is idle (no search or timer goroutine exists): the go command was dropped", what, timeout), x.payload(nil))
		} else if dl {
			x.rep.Viol("hang:no-bestmove:deadlock:"+sig, fmt.Sprintf("no bestmove after %s within %s; goroutine dump proves a deadlock (%s)", what, timeout, sig), x.payload(nil))
		} else {
			x.rep.Inconclusive(fmt.Sprintf("session %d: no bestmove after %s within %s (%s) transcript: %s", x.sid, what, timeout, sig, strings.Join(x.u.transcript(14), " || ")))
		}
		x.dead = true
	}
	return l, seen, ok
}

func (x *c12ctx) quiescent() {
	// at a quiescent point: #bestmove == #go, and nothing more arrives
	time.Sleep(2 * time.Millisecond)
	extra := x.u.poll()
	x.note(extra)
	x.rep.Eval(1)
	if x.bests != x.goes {
		kind := "missing"
		if x.bests > x.goes {
			kind = "extra"
		}
		x.rep.Viol("bestmove-count:"+kind, fmt.Sprintf("after %d go commands %d bestmove lines were received", x.goes, x.bests), x.payload(nil))
		x.bests = x.goes // report once
	}
}

func (x *c12ctx) setPosition() {
	roots := corpusRoots()
	start := rc.MustFEN(rc.StartFEN)
	cmd := "position startpos"
	if x.r.Chance(0.6) {
		start = rc.MustFEN(roots[x.r.Intn(len(roots))])
		cmd = "position fen " + start.FEN()
	}
	var steps []Step
	if x.r.Chance(0.7) {
		steps = playout(x.r, start, 1+x.r.Intn(30), defaultBias)
		if x.r.Chance(0.15) {
			steps = buildCycleGame(x.r, start, 6+x.r.Intn(12), x.rep)
		}
	}
	b := start
	if len(steps) > 0 {
		cmd += " moves " + strings.Join(stepMoves(steps, len(steps)), " ")
		b = steps[len(steps)-1].After
		x.rep.Inc("position_with_moves")
	}
	x.u.send(cmd)
	ok, seen := x.u.sync(10 * time.Second)
	x.note(seen)
	if !ok {
		x.rep.Viol("isready:no-readyok-after-position", "no readyok after a position command", x.payload(nil))
		x.dead = true
		return
	}
	x.rep.Eval(1)
	x.rep.Inc("position_checks")
	x.board, x.posCmd = b, cmd
	if got := x.u.h.VerifPositionFen(); got != b.FEN() {
		x.rep.Viol("position:wrong-position", fmt.Sprintf("after %q the engine holds %q, playing the moves gives %q", cmd, got, b.FEN()), x.payload(map[string]interface{}{"command": cmd}))
	}
}

func lastInfoDepth(seen []string) int {
	d := -1
	for _, l := range seen {
		if g := reInfoDepth.FindStringSubmatch(l); g != nil {
			d, _ = strconv.Atoi(g[1])
		}
	}
	return d
}

func lastScore(seen []string) string {
	s := ""
	for _, l := range seen {
		if reInfoDepth.MatchString(l) {
			if i := strings.Index(l, " score "); i >= 0 {
				j := strings.Index(l, " nodes ")
				if j > i {
					s = l[i+7 : j]
				}
			}
		}
	}
	return s
}

func (x *c12ctx) goDepth() {
	d := 1 + x.r.Intn(4)
	x.u.send(fmt.Sprintf("go depth %d", d))
	x.goes++
	x.rep.Inc("go_commands")
	x.rep.Inc("go_depth")
	_, seen, ok := x.expectBestmove("go depth", 60*time.Second)
	if !ok {
		return
	}
	x.rep.Inc("bestmoves")
	x.rep.Eval(1)
	n := len(x.board.Legal())
	if n > 1 {
		if got := lastInfoDepth(seen); got != d {
			x.rep.Viol("go-depth:final-info-depth", fmt.Sprintf("go depth %d on %s ended with last 'info depth %d' (premature bestmove?)", d, x.board.FEN(), got), x.payload(nil))
		}
	}
	x.quiescent()
}

// a GUI answering a bestmove at once: the next go is written the moment the
// bestmove is read
func (x *c12ctx) backToBack() {
	n := 2 + x.r.Intn(3)
	for i := 0; i < n && !x.dead; i++ {
		d := 1 + x.r.Intn(3)
		x.u.send(fmt.Sprintf("go depth %d", d))
		x.goes++
		x.rep.Inc("go_commands")
		x.rep.Inc("go_depth")
		if i > 0 {
			x.rep.Inc("zero_delay_go_after_bestmove")
		}
		if _, _, ok := x.expectBestmove("go depth (back to back)", 20*time.Second); ok {
			x.rep.Inc("bestmoves")
		}
	}
	if !x.dead {
		x.quiescent()
	}
}

func (x *c12ctx) stopAndWait(what string) {
	t0 := time.Now()
	x.u.send("stop")
	_, _, ok := x.expectBestmove(what+" + stop", 30*time.Second)
	if !ok {
		return
	}
	x.rep.Inc("bestmoves")
	if el := time.Since(t0); el > 700*time.Millisecond {
		x.slow = append(x.slow, fmt.Sprintf("%s: bestmove %s after stop", what, el))
	}
}

func (x *c12ctx) isreadyDuringSearch(what string) bool {
	n := 1 + x.r.Intn(4)
	for i := 0; i < n; i++ {
		x.u.send("isready")
		_, ok, seen := x.u.waitFor(func(l string) bool { return l == "readyok" || isBestmove(l) }, 10*time.Second)
		x.rep.Eval(1)
		x.rep.Inc("isready_during_search")
		if nb := countBestmoves(seen); nb > 0 {
			x.note(seen)
			x.rep.Viol("premature-bestmove:"+what, fmt.Sprintf("%s search sent bestmove before any stop/ponderhit was issued (%s)", what, x.board.FEN()), x.payload(nil))
			return false
		}
		if !ok {
			x.rep.Viol("isready:no-readyok-during-search", "isready during a running "+what+" search was not answered within 10 s", x.payload(nil))
			x.dead = true
			return false
		}
	}
	return true
}

func (x *c12ctx) checkNoBestmoveYet(what string) bool {
	seen := x.u.poll()
	x.rep.Eval(1)
	if countBestmoves(seen) > 0 {
		x.note(seen)
		x.rep.Viol("premature-bestmove:"+what, fmt.Sprintf("%s search sent bestmove before its stop/ponderhit (%s)", what, x.board.FEN()), x.payload(nil))
		return false
	}
	return true
}

func (x *c12ctx) goInfinite() {
	x.u.send("go infinite")
	x.goes++
	x.rep.Inc("go_commands")
	x.rep.Inc("go_infinite")
	if x.r.Chance(0.15) {
		x.rep.Inc("stop_right_after_go")
	} else {
		if x.r.Chance(0.5) && !x.isreadyDuringSearch("infinite") {
			if x.dead {
				return
			}
			x.quiescent()
			return
		}
		time.Sleep(time.Duration(x.r.Intn(30000)) * time.Microsecond)
		if !x.checkNoBestmoveYet("infinite") {
			x.quiescent()
			return
		}
	}
	x.stopAndWait("go infinite")
	if !x.dead {
		x.quiescent()
	}
}

// ponder search without clock (depth / nodes limited or bare): after ponderhit the
// limit has long been reached, so the bestmove is due. The verdict is an ordering
// fact: search finished its limit, ponderhit sent, no bestmove until an extra stop.
func (x *c12ctx) ponderNoClockScenario(u *uciSess, cmd string, d int) (string, bool) {
	u.send(cmd)
	if d > 0 {
		u.waitFor(func(l string) bool {
			g := reInfoDepth.FindStringSubmatch(l)
			return g != nil && g[1] == strconv.Itoa(d) || isBestmove(l)
		}, 20*time.Second)
	}
	time.Sleep(time.Duration(5+x.r.Intn(30)) * time.Millisecond)
	if countBestmoves(u.poll()) > 0 {
		return "premature", false
	}
	u.send("ponderhit")
	_, ok, _ := u.waitFor(isBestmove, 5*time.Second)
	if ok {
		return "", true
	}
	u.send("stop")
	_, ok2, _ := u.waitFor(isBestmove, 20*time.Second)
	if ok2 {
		return "bestmove-only-after-extra-stop", false
	}
	return "no-bestmove-at-all", false
}

func (x *c12ctx) goPonderNoClock() {
	d := 0
	var cmd string
	switch x.r.Intn(3) {
	case 0:
		d = 1 + x.r.Intn(3)
		cmd = fmt.Sprintf("go ponder depth %d", d)
	case 1:
		cmd = fmt.Sprintf("go ponder nodes %d", 50+x.r.Intn(3000))
	default:
		d = 1 + x.r.Intn(2)
		cmd = fmt.Sprintf("go depth %d ponder", d)
	}
	if len(x.board.Legal()) < 2 {
		return
	}
	x.goes++
	x.rep.Inc("go_commands")
	x.rep.Inc("go_ponder_without_clock")
	x.rep.Eval(1)
	what, ok := x.ponderNoClockScenario(x.u, cmd, d)
	x.bests++ // exactly one bestmove was consumed by the scenario (or none: handled below)
	if ok {
		x.rep.Inc("bestmoves")
		x.quiescent()
		return
	}
	if what == "premature" {
		x.rep.Viol("premature-bestmove:ponder-without-clock", fmt.Sprintf("%q sent bestmove before ponderhit/stop (%s)", cmd, x.board.FEN()), x.payload(nil))
		x.quiescent()
		return
	}
	if what == "no-bestmove-at-all" {
		x.bests--
		x.dead = true
	}
	// isolate and reproduce on fresh handlers (once per process and kind)
	if c12Reproduced[what] {
		x.rep.Viol("ponderhit:no-bestmove:"+what, fmt.Sprintf("%q on %s: the limit was reached and ponderhit was sent, but no bestmove followed within 5 s (%s)", cmd, x.board.FEN(), what), x.payload(map[string]interface{}{"command": cmd}))
		if !x.dead {
			x.quiescent()
		}
		return
	}
	rep := 0
	for k := 0; k < 2; k++ {
		f := newUciSess()
		f.send("setoption name Use_Book value false")
		f.send(x.posCmd)
		f.sync(10 * time.Second)
		if w, ok := x.ponderNoClockScenario(f, cmd, d); !ok && w != "premature" {
			rep++
		}
		f.quit(5 * time.Second)
	}
	if rep == 2 {
		c12Reproduced[what] = true
		x.rep.Viol("ponderhit:no-bestmove:"+what, fmt.Sprintf("%q on %s: the limit was reached and ponderhit was sent, but no bestmove followed within 5 s (%s); reproduced on 2 fresh handlers", cmd, x.board.FEN(), what), x.payload(map[string]interface{}{"command": cmd}))
	} else {
		x.rep.Inconclusive(fmt.Sprintf("session %d: %q + ponderhit gave no bestmove within 5 s once (%s), not reproduced (%d/2)", x.sid, cmd, what, rep))
	}
	if !x.dead {
		x.quiescent()
	}
}

func (x *c12ctx) goPonder() {
	if x.r.Chance(0.35) {
		x.goPonderNoClock()
		return
	}
	t := 400 + x.r.Intn(1200)
	x.u.send(fmt.Sprintf("go ponder wtime %d btime %d", t, t))
	x.goes++
	x.rep.Inc("go_commands")
	if x.r.Chance(0.4) && !x.isreadyDuringSearch("ponder") {
		if !x.dead {
			x.quiescent()
		}
		return
	}
	time.Sleep(time.Duration(x.r.Intn(20000)) * time.Microsecond)
	if !x.checkNoBestmoveYet("ponder") {
		x.quiescent()
		return
	}
	if x.r.Chance(0.5) {
		x.rep.Inc("go_ponder_stop")
		x.stopAndWait("go ponder")
	} else {
		x.rep.Inc("go_ponderhit")
		x.u.send("ponderhit")
		// bestmove follows when the time budget is used up
		_, _, ok := x.expectBestmove("go ponder + ponderhit", 30*time.Second)
		if ok {
			x.rep.Inc("bestmoves")
		}
	}
	if !x.dead {
		x.quiescent()
	}
}

func (x *c12ctx) goTimed() {
	var cmd string
	if x.r.Chance(0.5) {
		cmd = fmt.Sprintf("go movetime %d", 5+x.r.Intn(60))
		x.rep.Inc("go_movetime")
	} else {
		t := 200 + x.r.Intn(1500)
		cmd = fmt.Sprintf("go wtime %d btime %d winc %d binc %d", t, t, x.r.Intn(20), x.r.Intn(20))
		if x.r.Chance(0.4) {
			cmd += fmt.Sprintf(" movestogo %d", 1+x.r.Intn(40))
		}
		x.rep.Inc("go_clock")
	}
	x.u.send(cmd)
	x.goes++
	x.rep.Inc("go_commands")
	if x.r.Chance(0.2) {
		x.rep.Inc("stop_right_after_go")
		x.u.send("stop")
	}
	if _, _, ok := x.expectBestmove(cmd, 30*time.Second); ok {
		x.rep.Inc("bestmoves")
		x.quiescent()
	}
}

// zero-delay: a long timed search is stopped and the next go is written the
// moment bestmove is read; the new (infinite) search must not be ended by
// leftovers of the old one.
func (x *c12ctx) zeroDelayChain() {
	x.u.send(fmt.Sprintf("go movetime %d", 3000+x.r.Intn(7000)))
	x.goes++
	x.rep.Inc("go_commands")
	x.rep.Inc("go_movetime")
	time.Sleep(time.Duration(x.r.Intn(8000)) * time.Microsecond)
	x.u.send("stop")
	if _, _, ok := x.expectBestmove("go movetime + stop", 30*time.Second); !ok {
		return
	}
	x.rep.Inc("bestmoves")
	x.u.send("go infinite")
	x.goes++
	x.rep.Inc("go_commands")
	x.rep.Inc("go_infinite")
	x.rep.Inc("zero_delay_go_after_bestmove")
	// the old timer polls every 5 ms: give it ample opportunity
	time.Sleep(time.Duration(30+x.r.Intn(120)) * time.Millisecond)
	if x.checkNoBestmoveYet("infinite-after-timed") {
		x.stopAndWait("go infinite (after timed)")
	}
	if !x.dead {
		x.quiescent()
	}
}

func (x *c12ctx) newGameEquality() {
	d := 2 + x.r.Intn(3)
	run := func(u *uciSess, count bool) (string, string, bool) {
		u.send(fmt.Sprintf("go depth %d", d))
		l, ok, seen := u.waitFor(isBestmove, 60*time.Second)
		if count {
			x.goes++
			x.rep.Inc("go_commands")
			x.note(seen)
		}
		return l, lastScore(seen), ok
	}
	// dirty the tables with a deeper search on the same position, then ucinewgame - in a third
	// of the cases received while the hash table is switched off (and switched on again after
	// it): what the earlier game left behind must be gone whatever the options were meanwhile
	variant := x.r.Intn(3)
	x.u.send(fmt.Sprintf("go depth %d", d+2))
	if _, ok, seen := x.u.waitFor(isBestmove, 60*time.Second); !ok {
		x.dead = true
		return
	} else {
		x.goes++
		x.rep.Inc("go_commands")
		x.rep.Inc("bestmoves")
		x.note(seen)
	}
	if variant == 1 {
		x.u.send("setoption name Use_Hash value false")
		x.rep.Inc("newgame_while_hash_off")
	}
	x.u.send("ucinewgame")
	if variant == 1 {
		x.u.send("setoption name Use_Hash value true")
	}
	x.u.send(x.posCmd)
	b1, s1, ok := run(x.u, true)
	if !ok {
		x.dead = true
		return
	}
	x.rep.Inc("bestmoves")
	// reference: a fresh handler (same process-global configuration)
	f := newUciSess()
	f.send(x.posCmd)
	b2, s2, ok2 := run(f, false)
	f.quit(5 * time.Second)
	x.rep.Eval(1)
	x.rep.Inc("newgame_equalities")
	if ok2 && (b1 != b2 || s1 != s2) {
		x.rep.Viol("ucinewgame:differs-from-fresh-engine", fmt.Sprintf("after ucinewgame 'go depth %d' on %s gives [%s | score %s], a fresh engine gives [%s | score %s]", d, x.board.FEN(), b1, s1, b2, s2),
			x.payload(map[string]interface{}{"position": x.posCmd, "depth": d, "hash_off_while_newgame": variant == 1, "config": x.u.printConfig()}))
	}
	x.quiescent()
}

func (x *c12ctx) setOptionCheck() {
	name := optionNames[x.r.Intn(len(optionNames))]
	if x.r.Chance(0.25) {
		// options are not independent inside the engine (the hash size is used when the table
		// is created, the table only exists while Use_Hash is on, ...): set one option while
		// another one it interacts with is in its non-default state
		pre := []string{"setoption name Use_Hash value false", "setoption name Use_Hash value false", "setoption name Use_Book value false", "setoption name Use_QHash value false"}[x.r.Intn(4)]
		x.u.send(pre)
		if x.r.Chance(0.6) {
			name = "Hash"
		}
		x.rep.Inc("setoption_with_other_option_non_default")
	}
	before := x.u.printConfig()
	if before == nil || len(before) < 40 {
		x.rep.Viol("print-config:unparseable", fmt.Sprintf("Print Config produced %d parseable fields", len(before)), x.payload(nil))
		return
	}
	var val string
	switch {
	case name == "Hash":
		val = strconv.Itoa(1 + x.r.Intn(12))
	default:
		val = strconv.FormatBool(x.r.Chance(0.5))
	}
	if name == "Use_Book" {
		val = "false"
	}
	button := ""
	if x.r.Chance(0.15) {
		button = []string{"Clear Hash", "Print Config"}[x.r.Intn(2)]
		x.u.send("setoption name " + button)
	} else {
		x.u.send(fmt.Sprintf("setoption name %s value %s", name, val))
	}
	after := x.u.printConfig()
	x.rep.Eval(1)
	x.rep.Inc("setoption_checks")
	if after == nil {
		x.rep.Viol("print-config:unparseable", "Print Config after setoption not parseable", x.payload(nil))
		return
	}
	field := optionField[name]
	for k, v := range before {
		nv, ok := after[k]
		if !ok {
			x.rep.Viol("setoption:field-vanished", "field "+k+" missing after setoption", x.payload(nil))
			continue
		}
		if button == "" && k == field {
			if nv != val {
				x.rep.Viol("setoption:not-applied:"+name, fmt.Sprintf("setoption name %s value %s: %s shows %s", name, val, field, nv), x.payload(nil))
			}
			continue
		}
		if nv != v {
			what := "setoption name " + name + " value " + val
			if button != "" {
				what = "button " + button
			}
			x.rep.Viol("setoption:changes-other-option:"+k, fmt.Sprintf("%s changed %s from %s to %s", what, k, v, nv), x.payload(nil))
		}
	}
	// keep later searches cheap and comparable
	x.u.send("setoption name Use_Hash value true")
	x.u.send("setoption name Use_QHash value true")
}

func c12(c *Ctx) {
	rep := c.Rep
	// widen the window between "result sent" and "search marked as ended" with a
	// seeded delay at the hook's run-exit event (the hook adds no synchronisation
	// that the engine does not have: it only sleeps)
	var hmu sync.Mutex
	hr := SubRng(c.Seed, "c12/hook", c.Shard)
	search.VerifTraceHook = func(ev string, a, b int64) {
		if ev != "run-exit" {
			return
		}
		hmu.Lock()
		d := []time.Duration{0, 0, time.Millisecond, 4 * time.Millisecond}[hr.Intn(4)]
		hmu.Unlock()
		if d > 0 {
			time.Sleep(d)
		}
	}
	defer func() { search.VerifTraceHook = nil }()
	nSess := c.Size(320, 15000)
	var allSlow []string
	for sid := 0; sid < nSess; sid++ {
		if !c.Mine(sid) {
			continue
		}
		if c12Unanswered >= 3 {
			// every further lost go costs a full watchdog period and proves nothing new
			rep.Inc("sessions_skipped_after_3_unanswered_go")
			continue
		}
		r := SubRng(c.Seed, "c12/session", sid)
		restoreSearchCfg()
		setEvalCfg(evalCfgs[0])
		rep.Begin(fmt.Sprintf("uci session %d", sid))
		x := &c12ctx{c: c, rep: rep, r: r, sid: sid, u: newUciSess(), board: rc.MustFEN(rc.StartFEN), posCmd: "position startpos"}
		rep.Inc("sessions")
		x.u.send("uci")
		if _, ok, _ := x.u.waitFor(func(l string) bool { return l == "uciok" }, 10*time.Second); !ok {
			rep.Viol("uci:no-uciok", "no uciok", x.payload(nil))
			continue
		}
		x.u.send("setoption name Use_Book value false")
		if r.Chance(0.85) {
			x.u.send(fmt.Sprintf("setoption name Hash value %d", 2+r.Intn(8)))
		}
		if ok, _ := x.u.sync(30 * time.Second); !ok {
			rep.Viol("isready:no-readyok", "no readyok after setup", x.payload(nil))
			continue
		}
		x.setPosition()
		steps := 6 + r.Intn(18)
		for x.step = 0; x.step < steps && !x.dead; x.step++ {
			rep.DistinctStr(fmt.Sprintf("%d/%d/%d", c.Seed, sid, x.step))
			if len(x.board.Legal()) == 0 {
				x.setPosition()
				continue
			}
			switch k := r.Intn(20); {
			case k < 3:
				x.setPosition()
			case k < 7:
				x.goDepth()
			case k < 10:
				x.goInfinite()
			case k < 12:
				x.goPonder()
			case k < 14:
				x.goTimed()
			case k < 15:
				x.zeroDelayChain()
			case k < 16:
				x.backToBack()
			case k < 17:
				x.newGameEquality()
			case k < 19:
				x.setOptionCheck()
			default:
				x.u.send("ucinewgame")
				x.board, x.posCmd = rc.MustFEN(rc.StartFEN), "position startpos"
				if ok, seen := x.u.sync(10 * time.Second); !ok {
					rep.Viol("isready:no-readyok-after-ucinewgame", "no readyok", x.payload(nil))
					x.dead = true
				} else {
					x.note(seen)
				}
			}
		}
		if !x.dead {
			x.quiescent()
			if !x.u.quit(10 * time.Second) {
				rep.Viol("quit:loop-does-not-end", "quit did not end the UCI loop within 10 s", x.payload(nil))
			}
		} else {
			x.u.dispose()
		}
		allSlow = append(allSlow, x.slow...)
		if sid < 2 {
			rep.Sample(map[string]interface{}{"session": sid, "transcript_head": x.u.transcript(1000)[:min(14, len(x.u.transcript(1000)))]})
		}
	}
	// temporal clause: isolate and reproduce
	if len(allSlow) > 0 {
		rep.Count("slow_stops_first_run", int64(len(allSlow)))
		exceeded := 0
		var last time.Duration
		for k := 0; k < 3; k++ {
			u := newUciSess()
			u.send("setoption name Use_Book value false")
			u.send("setoption name Hash value 4")
			u.send("position startpos")
			u.sync(10 * time.Second)
			u.send("go infinite")
			time.Sleep(30 * time.Millisecond)
			t0 := time.Now()
			u.send("stop")
			u.waitFor(isBestmove, 30*time.Second)
			last = time.Since(t0)
			if last > 700*time.Millisecond {
				exceeded++
			}
			u.quit(5 * time.Second)
		}
		if exceeded == 3 {
			rep.Viol("stop:not-prompt-reproducibly", fmt.Sprintf("bestmove arrives %s after stop in 3 of 3 isolated runs (first seen: %s)", last, allSlow[0]), nil)
		} else {
			rep.Inconclusive(fmt.Sprintf("%d stop(s) slower than 700 ms under load (e.g. %s); not reproduced in isolation (%d/3)", len(allSlow), allSlow[0], exceeded))
		}
	}
	restoreSearchCfg()
}
