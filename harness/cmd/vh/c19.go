package main

import (
	"fmt"
	"os"
	"path/filepath"
	"runtime"
	"sort"
	"strings"

	"github.com/frankkopp/FrankyGo/internal/openingbook"
	"github.com/frankkopp/FrankyGo/internal/position"
	"github.com/frankkopp/FrankyGo/internal/types"
	rc "github.com/frankkopp/FrankyGo/verifh/refchess"
)

func init() {
	register(&CheckSpec{
		ID: "C19", Fn: c19, Race: true,
		Rule:        "one evaluation = one book built by the public Initialize (cache off) from a generated game collection (1-300 games of 1-30 plies played by refchess, with transposed move orders, duplicate games, an illegal but well-formed move or an unreadable token mid-line) rendered as Simple, SAN and PGN (tags, {} and ; comments, % lines, NAGs, nested variations, numbering styles, results, wrapped lines); compared entry by entry with the expectation computed by single-threaded replay of the reference moves: key set, visit counters, every offered move legal in its position (refchess), leading to its linked successor key, offered once; the three formats agree; the same file rebuilt under GOMAXPROCS 1/2/4/16 gives identical (key -> counter) maps; every eighth collection is a contention collection (60-260 adjacent pairs of transposing games, 2-4 copies each, rebuilt 12 times under GOMAXPROCS up to 64) aimed at the first discovery of a position by several line goroutines at once; every eighth is a crowded collection (SAN and PGN only: games with early promotions and under-promotions, moves whose SAN needs file and rank of the origin preferred); half of the shards under the race detector; distinct = distinct (collection, format, GOMAXPROCS) builds",
		Assumptions: []string{"positions are identified by the engine's zobrist key (judged by C04)", "promotions are excluded (the Simple format cannot express them)", "successor lists depend on insertion order and are judged per move, not as sequences"},
		Required:    []string{"builds", "collections", "games", "transposition_games", "duplicate_games", "illegal_tail_games", "unreadable_tail_games", "entries_checked", "moves_checked", "format_simple", "format_san", "format_pgn", "gomaxprocs_variants", "insertion_orders_seen", "contention_collections", "crowded_collections", "san_moves_with_file_and_rank", "san_captures_with_file_and_rank", "simple_underpromotion_builds"},
		MinEvals:    100,
		TimeoutQ:    15 * 60e9,
	})
}

type builtBook struct {
	cnt   map[uint64]int
	moves map[uint64][]openingbook.Successor
	n     int
}

func buildBook(dir, file string, format openingbook.BookFormat, keys map[uint64]int) (*builtBook, error) {
	b := openingbook.NewBook()
	if err := b.Initialize(dir, file, format, false, false); err != nil {
		return nil, err
	}
	bb := &builtBook{cnt: map[uint64]int{}, moves: map[uint64][]openingbook.Successor{}, n: b.NumberOfEntries()}
	for k := range keys {
		if e, ok := b.GetEntry(position.Key(k)); ok {
			bb.cnt[k] = e.Counter
			bb.moves[k] = e.Moves
			// follow links to discover entries the expectation does not know
			for _, s := range e.Moves {
				if _, known := keys[s.NextEntry]; !known {
					bb.cnt[s.NextEntry] = -1
				}
			}
		}
	}
	return bb, nil
}

func c19(c *Ctx) {
	rep := c.Rep
	nColl := c.Size(64, 3000)
	if c.Race {
		nColl /= 2
	}
	dir, _ := os.Getwd()
	dir = filepath.Join(dir, fmt.Sprintf("books-%d", c.Shard))
	_ = os.MkdirAll(dir, 0o755)
	defer os.RemoveAll(dir)
	orders := map[string]bool{}
	for ci := 0; ci < nColl; ci++ {
		if !c.Mine(ci) {
			continue
		}
		r := SubRng(c.Seed, "c19/coll", ci)
		nGames := 1 + r.Intn(12)
		if ci%4 == 0 {
			nGames = 20 + r.Intn(c.Size(120, 300))
		}
		bs := genBookSet(r, nGames, 1+r.Intn(30))
		contention := ci%8 == 3
		if contention {
			// first discovery of a position by several lines at once (transposing partners,
			// adjacent, several copies): a check-then-act gap in the insert path shows here
			bs = genContentionSet(r, 60+r.Intn(c.Size(100, 200)), 2+r.Intn(3))
			rep.Inc("contention_collections")
		}
		crowded := ci%8 == 5
		if crowded {
			// promotions and three pieces of one kind: SAN with file, rank or both as origin
			var nb, nbc int
			bs, nb, nbc = genCrowdedSet(r, 6+r.Intn(30))
			rep.Inc("crowded_collections")
			rep.Count("san_moves_with_file_and_rank", int64(nb))
			rep.Count("san_captures_with_file_and_rank", int64(nbc))
		}
		want, boards := expectedBook(bs)
		rep.Inc("collections")
		rep.Count("games", int64(len(bs.Games)))
		seen := map[string]bool{}
		for _, g := range bs.Games {
			id := fmt.Sprint(g.Moves)
			if seen[id] {
				rep.Inc("duplicate_games")
			}
			seen[id] = true
			switch g.Tail {
			case "illegal":
				rep.Inc("illegal_tail_games")
			case "unreadable":
				rep.Inc("unreadable_tail_games")
			}
		}
		// transpositions present? (a position reached by two different move sequences)
		{
			via := map[uint64]string{}
			start := rc.MustFEN(rc.StartFEN)
			for _, g := range bs.Games {
				p := position.NewPosition()
				b := start
				path := ""
				for _, m := range g.Moves {
					p.DoMove(toEng(m))
					b = b.Apply(m)
					path += m.UCI()
					k := uint64(p.ZobristKey())
					if v, ok := via[k]; ok && v != path {
						rep.Inc("transposition_games")
						break
					}
					via[k] = path
				}
			}
		}
		files := []struct {
			name   string
			format openingbook.BookFormat
			text   string
			tag    string
		}{
			{"book.txt", openingbook.Simple, bs.renderSimple(r), "simple"},
			{"book.san", openingbook.San, bs.renderSAN(r), "san"},
			{"book.pgn", openingbook.Pgn, bs.renderPGN(r), "pgn"},
		}
		rep.Begin(fmt.Sprintf("collection %d (%d games)", ci, len(bs.Games)))
		if crowded {
			files = files[1:] // the Simple format cannot express promotions
		}
		for _, f := range files {
			if err := os.WriteFile(filepath.Join(dir, f.name), []byte(f.text), 0o644); err != nil {
				rep.Inconclusive("cannot write book file: " + err.Error())
				return
			}
			var first map[uint64]int
			procs := []int{16, 1, 2, 4, 16}
			if c.Thorough() {
				procs = append(procs, 16, 3, 8, 16, 1)
			}
			if contention {
				procs = []int{64, 64, 16, 64, 8, 64, 32, 64, 64, 4, 64, 64}
				if c.Race {
					procs = procs[:6]
				}
			}
			for pi, np := range procs {
				old := runtime.GOMAXPROCS(np)
				bb, err := buildBook(dir, f.name, f.format, want)
				runtime.GOMAXPROCS(old)
				rep.Eval(1)
				rep.Inc("builds")
				rep.Inc("format_" + f.tag)
				if pi > 0 {
					rep.Inc("gomaxprocs_variants")
				}
				rep.DistinctStr(fmt.Sprintf("%d/%d/%s/%d/%d", c.Seed, ci, f.tag, np, pi))
				payload := map[string]interface{}{"collection": ci, "format": f.tag, "gomaxprocs": np, "file_head": head(f.text, 600)}
				if err != nil {
					rep.Viol("book:initialize-error:"+f.tag, "Initialize failed: "+err.Error(), payload)
					break
				}
				// insertion order fingerprint: the successor order of the root entry
				var ord []string
				for _, s := range bb.moves[uint64(position.NewPosition().ZobristKey())] {
					ord = append(ord, types.Move(s.Move).StringUci())
				}
				orders[f.tag+strings.Join(ord, ",")] = true
				// (1) positions and counters
				if bb.n != len(want) {
					rep.Viol("book:entry-count:"+f.tag, fmt.Sprintf("%s book has %d entries, the games visit %d positions", f.tag, bb.n, len(want)), payload)
				}
				for k, w := range want {
					rep.Inc("entries_checked")
					got, ok := bb.cnt[k]
					if !ok {
						rep.Viol("book:position-missing:"+f.tag, fmt.Sprintf("%s book lacks position %s (visited %d times)", f.tag, boards[k].FEN(), w), payload)
						continue
					}
					if got != w {
						what := "counter"
						if boards[k].FEN() == rc.StartFEN {
							what = "root-counter"
						}
						rep.Viol("book:"+what+":"+f.tag, fmt.Sprintf("%s book counts %d visits of %s, the games visit it %d times", f.tag, got, boards[k].FEN(), w), payload)
					}
				}
				for k, v := range bb.cnt {
					if v == -1 {
						rep.Viol("book:unexpected-position:"+f.tag, fmt.Sprintf("%s book links to a position (key %d) no game prefix reaches", f.tag, k), payload)
					}
				}
				// (2) offered moves
				for k, succ := range bb.moves {
					b := boards[k]
					if b == nil {
						continue
					}
					seenMv := map[uint32]bool{}
					for _, s := range succ {
						rep.Inc("moves_checked")
						m := types.Move(s.Move)
						if seenMv[s.Move] {
							rep.Viol("book:move-offered-twice:"+f.tag, fmt.Sprintf("move %s offered twice in %s", m.StringUci(), b.FEN()), payload)
						}
						seenMv[s.Move] = true
						var lm *rc.Move
						for _, l := range b.Legal() {
							if rcKey(l) == uint32(m.MoveOf()) {
								l2 := l
								lm = &l2
							}
						}
						if lm == nil {
							rep.Viol("book:illegal-move-offered:"+f.tag, fmt.Sprintf("book offers %s which is not legal in %s", m.StringUci(), b.FEN()), payload)
							continue
						}
						p := engPos(b.FEN())
						p.DoMove(m.MoveOf())
						if uint64(p.ZobristKey()) != s.NextEntry {
							rep.Viol("book:wrong-successor-link:"+f.tag, fmt.Sprintf("move %s in %s is linked to key %d, the successor position has key %d", m.StringUci(), b.FEN(), s.NextEntry, uint64(p.ZobristKey())), payload)
						}
					}
				}
				// (3) schedule independence
				if first == nil {
					first = bb.cnt
				} else if !sameCounts(first, bb.cnt) {
					rep.Viol("book:schedule-dependent:"+f.tag, fmt.Sprintf("the same %s file built twice (GOMAXPROCS %d vs 16) gives different position/visit maps", f.tag, np), payload)
				}
			}
		}
		if crowded {
			// The coordinate (Simple) reader sees moves as four characters: a promotion is not
			// readable there and the line contributes its prefix up to it.  Games whose first
			// promotion is an under-promotion, written in coordinates:
			bsS := &bookSet{}
			for _, g := range bs.Games {
				for k, m := range g.Moves {
					if m.Kind != rc.Promotion {
						continue
					}
					if u := m.UCI(); u[len(u)-1] != 'q' {
						bsS.Games = append(bsS.Games, bookGame{Moves: g.Moves[:k], SANs: g.SANs[:k], Tail: "illegal", TailUci: u[:4], After: g.Moves[k+1:]})
					}
					break
				}
			}
			if len(bsS.Games) > 0 {
				wantS, boardsS := expectedBook(bsS)
				text := bsS.renderSimple(r)
				if err := os.WriteFile(filepath.Join(dir, "book_up.txt"), []byte(text), 0o644); err == nil {
					bb, err := buildBook(dir, "book_up.txt", openingbook.Simple, wantS)
					rep.Eval(1)
					rep.Inc("builds")
					rep.Inc("simple_underpromotion_builds")
					payload := map[string]interface{}{"collection": ci, "format": "simple-with-underpromotions", "file_head": head(text, 600)}
					if err != nil {
						rep.Viol("book:initialize-error:simple-underpromotion", "Initialize failed: "+err.Error(), payload)
					} else {
						if bb.n != len(wantS) {
							rep.Viol("book:entry-count:simple-underpromotion", fmt.Sprintf("coordinate book of games with an under-promotion has %d entries, the readable prefixes visit %d positions", bb.n, len(wantS)), payload)
						}
						for k, w := range wantS {
							if got, ok := bb.cnt[k]; !ok || got != w {
								rep.Viol("book:counter:simple-underpromotion", fmt.Sprintf("coordinate book counts %d visits of %s, the readable prefixes visit it %d times", got, boardsS[k].FEN(), w), payload)
								break
							}
						}
						for k, v := range bb.cnt {
							if v == -1 {
								rep.Viol("book:unexpected-position:simple-underpromotion", fmt.Sprintf("coordinate book links to a position (key %d) which no readable game prefix reaches (an under-promotion was read as something else)", k), payload)
								break
							}
						}
					}
				}
			}
		}
		if ci < 2 {
			rep.Sample(map[string]interface{}{"games": len(bs.Games), "simple_head": head(files[0].text, 200), "pgn_head": head(files[2].text, 400)})
		}
	}
	rep.Count("insertion_orders_seen", int64(len(orders)))
}

func head(s string, n int) string {
	if len(s) > n {
		return s[:n] + "..."
	}
	return s
}

func sameCounts(a, b map[uint64]int) bool {
	if len(a) != len(b) {
		return false
	}
	ks := make([]uint64, 0, len(a))
	for k := range a {
		ks = append(ks, k)
	}
	sort.Slice(ks, func(i, j int) bool { return ks[i] < ks[j] })
	for _, k := range ks {
		if a[k] != b[k] {
			return false
		}
	}
	return true
}
