package main

import (
	"bufio"
	"crypto/sha1"
	"encoding/binary"
	"encoding/hex"
	"encoding/json"
	"fmt"
	"io"
	"os"
	"os/exec"
	"path/filepath"
	"regexp"
	"sort"
	"strings"
	"sync"
	"syscall"
	"time"
)

var verifRoot = func() string {
	if v := os.Getenv("VERIF_ROOT"); v != "" {
		return v
	}
	return "/verif"
}()

type Viol struct {
	Key    string      `json:"key"`
	Msg    string      `json:"msg"`
	Replay interface{} `json:"replay,omitempty"`
	Shard  int         `json:"shard"`
	Case   string      `json:"case,omitempty"`
	Count  int         `json:"count"`
}

type Orch struct {
	Spec     *CheckSpec
	ID, Tier string
	Seed     uint64
	RunDir   string
	mu       sync.Mutex
	Viols    map[string]*Viol
	Inconcl  []string
	Counters map[string]int64
	Evals    int64
	Samples  []interface{}
	Distinct int64
	Broken   []string
	hashFiles []string
	start    time.Time
}

func (o *Orch) AddViol(v Viol) {
	o.mu.Lock()
	defer o.mu.Unlock()
	if old, ok := o.Viols[v.Key]; ok {
		old.Count++
		return
	}
	v.Count = 1
	o.Viols[v.Key] = &v
}
func (o *Orch) AddInconclusive(s string) {
	o.mu.Lock()
	defer o.mu.Unlock()
	o.Inconcl = append(o.Inconcl, s)
}
func (o *Orch) AddBroken(s string) {
	o.mu.Lock()
	defer o.mu.Unlock()
	o.Broken = append(o.Broken, s)
}

type knownFinding struct {
	Property string `json:"property"`
	Status   string `json:"status"` // known | fixed
	Key      string `json:"key"`
	Commit   string `json:"commit,omitempty"`
	What     string `json:"what"`
}

func loadKnown() []knownFinding {
	var res struct {
		Findings []knownFinding `json:"findings"`
	}
	b, err := os.ReadFile(filepath.Join(verifRoot, "known_findings.json"))
	if err != nil {
		return nil
	}
	_ = json.Unmarshal(b, &res)
	return res.Findings
}

func orchestrate(id, tier, replayFile string) int {
	spec := registry[id]
	if spec == nil {
		fmt.Printf("BROKEN unknown check %s\n", id)
		return 2
	}
	if tier != "quick" && tier != "thorough" {
		fmt.Printf("BROKEN unknown tier %s\n", tier)
		return 2
	}
	o := &Orch{Spec: spec, ID: id, Tier: tier, Seed: envSeed(), Viols: map[string]*Viol{}, Counters: map[string]int64{}, start: time.Now()}
	o.RunDir = filepath.Join(verifRoot, "run", id)
	_ = os.RemoveAll(o.RunDir)
	if err := os.MkdirAll(o.RunDir, 0o755); err != nil {
		fmt.Printf("BROKEN cannot create run dir: %v\n", err)
		return 2
	}
	fmt.Printf("== %s %s seed=%d shards=%d\n", id, tier, o.Seed, spec.Shards)

	var wg sync.WaitGroup
	sem := make(chan struct{}, 16)
	for sh := 0; sh < spec.Shards; sh++ {
		wg.Add(1)
		go func(sh int) {
			defer wg.Done()
			sem <- struct{}{}
			defer func() { <-sem }()
			o.runShard(sh)
		}(sh)
	}
	wg.Wait()

	o.unionHashes()
	if spec.Race {
		o.collectRaces()
	}
	if spec.Post != nil {
		spec.Post(o)
	}
	for _, rq := range spec.Required {
		if o.Counters[rq] <= 0 {
			o.Broken = append(o.Broken, "required counter "+rq+" is 0: the monitor did not observe what it was built to observe")
		}
	}
	if o.Evals < spec.MinEvals || o.Evals == 0 {
		o.Broken = append(o.Broken, fmt.Sprintf("only %d evaluations (minimum %d)", o.Evals, spec.MinEvals))
	}
	return o.report()
}

func (o *Orch) timeout() time.Duration {
	if o.Tier == "thorough" {
		return o.Spec.TimeoutT
	}
	return o.Spec.TimeoutQ
}

func exePath(race bool) string {
	exe, _ := os.Executable()
	if race {
		return filepath.Join(filepath.Dir(exe), "vh-race")
	}
	return filepath.Join(filepath.Dir(exe), "vh")
}

// raceShard decides which shards run on the -race binary.
func (o *Orch) raceShard(sh int) bool {
	if !o.Spec.Race {
		return false
	}
	if o.Spec.RaceOnly {
		return true
	}
	return sh%2 == 1
}

func (o *Orch) runShard(sh int) {
	resume := -1
	for attempt := 0; attempt < 40; attempt++ {
		out := filepath.Join(o.RunDir, fmt.Sprintf("shard%02d.%d.jsonl", sh, attempt))
		errf := filepath.Join(o.RunDir, fmt.Sprintf("shard%02d.%d.stderr", sh, attempt))
		race := o.raceShard(sh)
		args := []string{"child", "-id", o.ID, "-tier", o.Tier, "-seed", fmt.Sprint(o.Seed), "-shard", fmt.Sprint(sh),
			"-nshards", fmt.Sprint(o.Spec.Shards), "-out", out, "-resume-after", fmt.Sprint(resume)}
		if race {
			args = append(args, "-race")
		}
		cmd := exec.Command(exePath(race), args...)
		cmd.Dir = o.RunDir
		ef, _ := os.Create(errf)
		cmd.Stderr = ef
		cmd.Stdout = ef
		cmd.Env = append(os.Environ(), "GOTRACEBACK=all")
		if race {
			cmd.Env = append(cmd.Env, "GORACE=halt_on_error=0 history_size=3 log_path="+filepath.Join(o.RunDir, fmt.Sprintf("race.%02d", sh)))
		}
		shardStart := time.Now()
		if err := cmd.Start(); err != nil {
			o.AddBroken("cannot start child: " + err.Error())
			_ = ef.Close()
			return
		}
		done := make(chan error, 1)
		go func() { done <- cmd.Wait() }()
		deadline := time.After(o.timeout())
		timedOut := false
		select {
		case <-done:
		case <-deadline:
			timedOut = true
			_ = cmd.Process.Signal(syscall.SIGQUIT)
			select {
			case <-done:
			case <-time.After(10 * time.Second):
				_ = cmd.Process.Kill()
				<-done
			}
		}
		_ = ef.Close()
		o.mu.Lock()
		o.Counters[fmt.Sprintf("shard_wall_ms_max")] = maxI64(o.Counters["shard_wall_ms_max"], int64(time.Since(shardStart)/time.Millisecond))
		o.mu.Unlock()
		complete, lastCase, lastIdx, abandoned := o.parseOut2(out, sh)
		o.hashFiles = appendLocked(&o.mu, o.hashFiles, out+".hashes")
		if complete {
			return
		}
		stderr, _ := os.ReadFile(errf)
		if abandoned {
			// the child judged a hang itself, reported it and gave up its process
		} else if timedOut {
			kind, sig := classifyDump(string(stderr))
			if kind == "deadlock" {
				o.AddViol(Viol{Key: "hang:deadlock:" + sig, Msg: "child hung; goroutine dump proves a deadlock (no goroutine runnable, sleeping or in I/O): " + sig,
					Shard: sh, Case: lastCase, Replay: map[string]interface{}{"case": lastCase, "stderr": errf}})
			} else {
				o.AddInconclusive(fmt.Sprintf("shard %d ran into the watchdog (%s) at case %q without proof of a deadlock (%s)", sh, o.timeout(), lastCase, sig))
			}
		} else {
			key, msg := crashSignature(string(stderr))
			if strings.Contains(key, "harness") || key == "crash:unknown" {
				o.AddBroken(fmt.Sprintf("shard %d died outside the code under test: %s (stderr %s)", sh, msg, errf))
			} else {
				keep := filepath.Join(verifRoot, "replays", o.ID)
				_ = os.MkdirAll(keep, 0o755)
				o.AddViol(Viol{Key: key, Msg: "child process crashed: " + msg, Shard: sh, Case: lastCase,
					Replay: map[string]interface{}{"case": lastCase, "stderr_tail": tail(string(stderr), 60)}})
			}
		}
		if !o.Spec.Resume || lastIdx < 0 || lastIdx <= resume {
			if !o.Spec.Resume {
				return
			}
			// cannot make progress
			o.AddInconclusive(fmt.Sprintf("shard %d could not be resumed after case %q", sh, lastCase))
			return
		}
		resume = lastIdx
	}
	o.AddInconclusive(fmt.Sprintf("shard %d: too many restarts", sh))
}

func appendLocked(mu *sync.Mutex, s []string, v string) []string {
	mu.Lock()
	defer mu.Unlock()
	return append(s, v)
}

func tail(s string, n int) string {
	ls := strings.Split(s, "\n")
	if len(ls) > n {
		ls = ls[:n]
	}
	return strings.Join(ls, "\n")
}

var reCaseIdx = regexp.MustCompile(`^#(\d+) `)

func (o *Orch) parseOut(path string, sh int) (complete bool, lastCase string, lastIdx int) {
	c, l, i, _ := o.parseOut2(path, sh)
	return c, l, i
}

func (o *Orch) parseOut2(path string, sh int) (complete bool, lastCase string, lastIdx int, abandoned bool) {
	lastIdx = -1
	f, err := os.Open(path)
	if err != nil {
		return false, "", -1, false
	}
	defer f.Close()
	var lastStat *line
	var l2 line
	defer func() {
		// stat lines are cumulative per attempt: the last one counts
		if lastStat != nil {
			o.mu.Lock()
			for k, v := range lastStat.Counters {
				o.Counters[k] += v
			}
			o.Evals += lastStat.Evals
			if len(o.Samples) < 6 {
				o.Samples = append(o.Samples, lastStat.Samples...)
			}
			o.mu.Unlock()
		}
	}()
	rd := bufio.NewReaderSize(f, 1<<20)
	for {
		b, err := rd.ReadBytes('\n')
		if len(b) > 0 {
			var l line
			if json.Unmarshal(b, &l) == nil {
				switch l.T {
				case "begin":
					lastCase = l.Case
					if m := reCaseIdx.FindStringSubmatch(l.Case); m != nil {
						fmt.Sscan(m[1], &lastIdx)
					}
				case "viol":
					o.AddViol(Viol{Key: l.Key, Msg: l.Msg, Replay: l.Replay, Shard: sh, Case: lastCase})
				case "inconclusive":
					o.AddInconclusive(l.Msg)
				case "stat":
					lastStat = &l2
					*lastStat = l
				case "abandon":
					abandoned = true
				case "done":
					complete = true
				}
			}
		}
		if err != nil {
			break
		}
	}
	return
}

func (o *Orch) unionHashes() {
	var all []uint64
	for _, hf := range o.hashFiles {
		f, err := os.Open(hf)
		if err != nil {
			continue
		}
		b, _ := io.ReadAll(bufio.NewReaderSize(f, 1<<20))
		_ = f.Close()
		for i := 0; i+8 <= len(b); i += 8 {
			all = append(all, binary.LittleEndian.Uint64(b[i:]))
		}
	}
	sort.Slice(all, func(i, j int) bool { return all[i] < all[j] })
	n := int64(0)
	for i := range all {
		if i == 0 || all[i] != all[i-1] {
			n++
		}
	}
	o.Distinct = n
}

// ---------------------------------------------------------------------------
// crash / hang analysis

var reHex = regexp.MustCompile(`0x[0-9a-f]+`)
var reNum = regexp.MustCompile(`\d+`)
var reFrame = regexp.MustCompile(`^(github\.com/frankkopp/FrankyGo/[^\s(]+(?:\([^)]*\))?[^\s(]*)\(`)

func shortFn(fn string) string {
	fn = strings.TrimPrefix(fn, "github.com/frankkopp/FrankyGo/internal/")
	fn = strings.TrimPrefix(fn, "github.com/frankkopp/FrankyGo/")
	return fn
}

func crashSignature(stderr string) (key, msg string) {
	lines := strings.Split(stderr, "\n")
	msg = "no panic message found"
	start := -1
	for i, l := range lines {
		if strings.HasPrefix(l, "panic: ") || strings.HasPrefix(l, "fatal error: ") {
			msg = l
			start = i
			break
		}
	}
	if start < 0 {
		return "crash:unknown", msg
	}
	fn := ""
	for _, l := range lines[start:] {
		l = strings.TrimSpace(l)
		if strings.HasPrefix(l, "github.com/frankkopp/FrankyGo/internal/") {
			if i := strings.LastIndex(l, "("); i > 0 {
				fn = shortFn(l[:i])
			}
			break
		}
		if strings.HasPrefix(l, "github.com/frankkopp/FrankyGo/verifh") || strings.HasPrefix(l, "main.") {
			// first non-runtime frame is harness code
			if !strings.Contains(l, "guard") {
				fn = "harness:" + l
			}
			break
		}
	}
	if fn == "" {
		fn = "unknown-frame"
	}
	m := reHex.ReplaceAllString(msg, "X")
	m = reNum.ReplaceAllString(m, "N")
	m = strings.TrimPrefix(m, "panic: ")
	if len(m) > 100 {
		m = m[:100]
	}
	return "crash:" + fn + ":" + m, msg
}

var reGoroutine = regexp.MustCompile(`^goroutine (\d+) \[([^\]]+)\]:`)

// classifyDump decides whether a SIGQUIT goroutine dump proves a deadlock.
func classifyDump(stderr string) (kind, sig string) {
	blocks := strings.Split(stderr, "\n\n")
	total := 0
	blockedFns := map[string]bool{}
	live := []string{}
	for _, b := range blocks {
		ls := strings.Split(strings.TrimSpace(b), "\n")
		if len(ls) == 0 {
			continue
		}
		m := reGoroutine.FindStringSubmatch(ls[0])
		if m == nil {
			continue
		}
		state := m[2]
		if i := strings.Index(state, ","); i >= 0 {
			state = state[:i]
		}
		// is it one of ours (any non-runtime frame)?
		ours := false
		topRepo := ""
		for _, l := range ls[1:] {
			t := strings.TrimSpace(l)
			if strings.HasPrefix(t, "github.com/frankkopp/FrankyGo/internal/") && topRepo == "" {
				if i := strings.LastIndex(t, "("); i > 0 {
					topRepo = shortFn(t[:i])
				}
			}
			if strings.HasPrefix(t, "github.com/frankkopp/") || strings.HasPrefix(t, "main.") {
				ours = true
			}
		}
		if !ours {
			// runtime helper goroutines (GC workers, signal handling, finalizer)
			if state == "running" || state == "runnable" {
				// the goroutine printing the dump is "running" inside the signal handler
				continue
			}
			continue
		}
		total++
		if inRuntimeWorldStop(ls[1:]) {
			live = append(live, "runtime-stop-the-world@"+topRepo)
			continue
		}
		switch state {
		case "semacquire", "sync.Mutex.Lock", "sync.RWMutex.Lock", "sync.RWMutex.RLock", "sync.WaitGroup.Wait", "chan send", "chan receive", "select", "sync.Cond.Wait", "select (no cases)", "chan receive (nil chan)", "chan send (nil chan)":
			if topRepo != "" {
				blockedFns[topRepo] = true
			}
		default:
			live = append(live, state+"@"+topRepo)
		}
	}
	if total == 0 {
		return "unknown", "no goroutine dump"
	}
	if len(live) > 0 {
		sort.Strings(live)
		return "live", "live goroutines: " + strings.Join(uniq(live), ",")
	}
	var fs []string
	for f := range blockedFns {
		fs = append(fs, f)
	}
	sort.Strings(fs)
	return "deadlock", strings.Join(fs, "|")
}

func uniq(s []string) []string {
	var r []string
	for i, x := range s {
		if i == 0 || x != s[i-1] {
			r = append(r, x)
		}
	}
	return r
}

// ---------------------------------------------------------------------------
// race reports

func (o *Orch) collectRaces() {
	files, _ := filepath.Glob(filepath.Join(o.RunDir, "race.*"))
	nReports := int64(0)
	for _, f := range files {
		b, err := os.ReadFile(f)
		if err != nil {
			continue
		}
		for _, blk := range strings.Split(string(b), "==================") {
			if !strings.Contains(blk, "WARNING: DATA RACE") {
				continue
			}
			nReports++
			key, desc := raceSignature(blk)
			o.AddViol(Viol{Key: key, Msg: "data race reported by the Go race detector: " + desc,
				Replay: map[string]interface{}{"report": tail(strings.TrimSpace(blk), 45)}})
		}
	}
	o.Counters["race_reports"] += nReports
	o.Counters["race_log_files"] += int64(len(files))
}

func raceSignature(blk string) (key, desc string) {
	// split into access sections; take for the first two sections (the two
	// conflicting accesses) the innermost FrankyGo function.
	var sites []string
	var kinds []string
	lines := strings.Split(blk, "\n")
	inAccess := false
	found := false
	for _, l := range lines {
		t := strings.TrimSpace(l)
		switch {
		case strings.HasPrefix(t, "Write at"), strings.HasPrefix(t, "Read at"), strings.HasPrefix(t, "Previous write at"), strings.HasPrefix(t, "Previous read at"),
			strings.HasPrefix(t, "Atomic write at"), strings.HasPrefix(t, "Previous atomic write at"), strings.HasPrefix(t, "Atomic read at"), strings.HasPrefix(t, "Previous atomic read at"):
			inAccess = true
			found = false
			kinds = append(kinds, strings.Fields(strings.TrimPrefix(t, "Previous "))[0])
			sites = append(sites, "?")
		case strings.HasPrefix(t, "Goroutine "):
			inAccess = false
		case inAccess && !found && strings.HasPrefix(t, "github.com/frankkopp/FrankyGo/internal/"):
			if i := strings.LastIndex(t, "("); i > 0 {
				sites[len(sites)-1] = shortFn(t[:i])
				found = true
			}
		case inAccess && !found && sites[len(sites)-1] == "?" && (strings.HasPrefix(t, "github.com/op/go-logging") || strings.HasPrefix(t, "bufio.")):
			// remember library frame; keep looking for the repo frame below it
			if i := strings.LastIndex(t, "("); i > 0 {
				sites[len(sites)-1] = "?" // stays until repo frame found
			}
		}
	}
	if len(sites) > 2 {
		sites = sites[:2]
	}
	s := append([]string(nil), sites...)
	sort.Strings(s)
	return "race:" + strings.Join(s, "|"), strings.Join(kinds, "/") + " " + strings.Join(sites, " vs ")
}

// ---------------------------------------------------------------------------
// report + evidence

func (o *Orch) report() int {
	known := loadKnown()
	var keys []string
	for k := range o.Viols {
		keys = append(keys, k)
	}
	sort.Strings(keys)
	unlisted := 0
	knownSeen := 0
	for _, k := range keys {
		v := o.Viols[k]
		matched := false
		for _, kf := range known {
			if kf.Property == o.ID && kf.Status == "known" && keyMatch(kf.Key, k) {
				fmt.Printf("KNOWN-FINDING: property=%s %s -- %s\n", o.ID, k, kf.What)
				matched = true
				knownSeen++
				break
			}
		}
		if matched {
			continue
		}
		unlisted++
		path := o.writeReplay(v)
		fmt.Printf("VIOLATION property=%s replay=%s\n", o.ID, path)
		fmt.Printf("  key=%s count=%d shard=%d\n  %s\n", v.Key, v.Count, v.Shard, oneLine(v.Msg, 600))
	}
	for _, s := range o.Inconcl {
		fmt.Printf("INCONCLUSIVE property=%s %s\n", o.ID, oneLine(s, 400))
	}
	for _, s := range o.Broken {
		fmt.Printf("BROKEN property=%s %s\n", o.ID, oneLine(s, 400))
	}
	o.writeEvidence(unlisted, knownSeen)
	var cks []string
	for k := range o.Counters {
		cks = append(cks, k)
	}
	sort.Strings(cks)
	fmt.Printf("-- %s %s: evaluations=%d distinct=%d violations=%d known=%d inconclusive=%d wall=%.1fs\n", o.ID, o.Tier, o.Evals, o.Distinct, unlisted, knownSeen, len(o.Inconcl), time.Since(o.start).Seconds())
	for _, k := range cks {
		fmt.Printf("   %-48s %d\n", k, o.Counters[k])
	}
	if unlisted > 0 {
		return 1
	}
	if len(o.Broken) > 0 {
		return 2
	}
	if len(o.Inconcl) >= 20 {
		// a handful of inconclusive cases on a loaded machine is expected and leaves the
		// verdict "held on what was observed"; dozens mean the monitor could not observe
		// what it is there for: that is no verdict at all, not a pass
		fmt.Printf("BROKEN property=%s %d inconclusive cases: no verdict on this run\n", o.ID, len(o.Inconcl))
		return 2
	}
	_ = os.RemoveAll(o.RunDir)
	return 0
}

func keyMatch(pattern, key string) bool {
	if pattern == key {
		return true
	}
	if strings.ContainsAny(pattern, "*?") {
		ok, _ := filepath.Match(pattern, key)
		return ok
	}
	return false
}

func oneLine(s string, n int) string {
	s = strings.ReplaceAll(s, "\n", " | ")
	if len(s) > n {
		s = s[:n] + "..."
	}
	return s
}

func (o *Orch) writeReplay(v *Viol) string {
	dir := filepath.Join(verifRoot, "replays", o.ID)
	_ = os.MkdirAll(dir, 0o755)
	h := sha1.Sum([]byte(v.Key))
	path := filepath.Join(dir, hex.EncodeToString(h[:6])+".json")
	doc := map[string]interface{}{
		"property": o.ID, "key": v.Key, "msg": v.Msg, "case": v.Case, "payload": v.Replay,
		"tier": o.Tier, "seed": o.Seed, "shard": v.Shard, "nshards": o.Spec.Shards,
		"how": "bin/vcheck replay " + path + "  (re-runs this shard with the same seed; deterministic)",
	}
	b, _ := json.MarshalIndent(doc, "", " ")
	_ = os.WriteFile(path, b, 0o644)
	return path
}

func (o *Orch) writeEvidence(unlisted, knownSeen int) {
	cov := map[string]interface{}{
		"evaluations":         o.Evals,
		"distinct_nontrivial": o.Distinct,
		"rule":                o.Spec.Rule,
		"samples":             o.Samples,
		"counters":            o.Counters,
		"known_findings_seen": knownSeen,
		"inconclusive":        o.Inconcl,
		"broken":              o.Broken,
		"shards":              o.Spec.Shards,
	}
	if o.Counters["distinct_cap_reached"] > 0 {
		cov["distinct_note"] = fmt.Sprintf("distinct_nontrivial is a lower bound: each shard remembers at most %d identities (%d further new identities were not remembered)", distinctCap, o.Counters["distinct_cap_reached"])
	}
	if len(o.Samples) == 0 {
		cov["samples"] = []interface{}{"(no sample recorded)"}
	}
	ev := map[string]interface{}{
		"property_id": o.ID,
		"tier":        o.Tier,
		"seed":        int64(o.Seed & 0x7fffffffffffffff),
		"level":       o.Spec.Level,
		"coverage":    cov,
		"assumptions": o.Spec.Assumptions,
		"wall_s":      time.Since(o.start).Seconds(),
		"violations":  unlisted,
	}
	b, _ := json.MarshalIndent(ev, "", " ")
	_ = os.MkdirAll(filepath.Join(verifRoot, "evidence"), 0o755)
	_ = os.WriteFile(filepath.Join(verifRoot, "evidence", o.ID+".json"), b, 0o644)
}

func replay(file string) int {
	b, err := os.ReadFile(file)
	if err != nil {
		fmt.Println("cannot read", file, err)
		return 2
	}
	var doc struct {
		Property string `json:"property"`
		Key      string `json:"key"`
		Tier     string `json:"tier"`
		Seed     uint64 `json:"seed"`
		Shard    int    `json:"shard"`
		NShards  int    `json:"nshards"`
	}
	if err := json.Unmarshal(b, &doc); err != nil {
		fmt.Println("bad replay file", err)
		return 2
	}
	spec := registry[doc.Property]
	if spec == nil {
		fmt.Println("unknown property", doc.Property)
		return 2
	}
	dir := filepath.Join(verifRoot, "run", doc.Property+"-replay")
	_ = os.RemoveAll(dir)
	_ = os.MkdirAll(dir, 0o755)
	out := filepath.Join(dir, "replay.jsonl")
	race := spec.Race && (spec.RaceOnly || doc.Shard%2 == 1)
	args := []string{"child", "-id", doc.Property, "-tier", doc.Tier, "-seed", fmt.Sprint(doc.Seed), "-shard", fmt.Sprint(doc.Shard), "-nshards", fmt.Sprint(doc.NShards), "-out", out}
	cmd := exec.Command(exePath(race), args...)
	cmd.Dir = dir
	cmd.Stdout = os.Stderr
	cmd.Stderr = os.Stderr
	_ = cmd.Run()
	o := &Orch{Spec: spec, ID: doc.Property, Viols: map[string]*Viol{}, Counters: map[string]int64{}}
	o.parseOut(out, doc.Shard)
	hit := false
	for k, v := range o.Viols {
		fmt.Printf("replayed violation key=%s\n  %s\n", k, oneLine(v.Msg, 800))
		if k == doc.Key {
			hit = true
		}
	}
	_ = os.RemoveAll(dir)
	if hit {
		fmt.Printf("VIOLATION property=%s replay=%s\n", doc.Property, file)
		return 1
	}
	fmt.Println("violation did not reproduce")
	return 0
}

func maxI64(a, b int64) int64 {
	if a > b {
		return a
	}
	return b
}
