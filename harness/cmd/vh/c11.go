package main

import (
	"fmt"
	"math/bits"

	"github.com/frankkopp/FrankyGo/internal/position"
	tt "github.com/frankkopp/FrankyGo/internal/transpositiontable"
	"github.com/frankkopp/FrankyGo/internal/types"
)

func init() {
	register(&CheckSpec{
		ID: "C11", Fn: c11, Race: true,
		Rule:        "one evaluation = one table operation after which the real table is compared with a sequential reference model (slot -> key, move, value, depth, type, age): Put with keys built to collide in the index bits (same low 24 bits), all bound types, depths 0..127, values over the whole valid range incl. every mate score, real moves and MoveNone; Probe/GetEntry of present, evicted, never-stored keys; AgeEntries, Clear, Resize to 0,1,2,3,5,8,16,64 MB; Len/Hashfull after every operation; replacement judged in the only-if direction; capacity established behaviourally; half of the shards run under the Go race detector; distinct = distinct (operation, key, model-slot state) triples",
		Assumptions: []string{"'aged' = age counter > 1 with the documented semantics (1 when written, +1 per AgeEntries, -1 per Probe hit, floor 0)", "declining to replace is always allowed; a same-key Put must update"},
		Required:    []string{"ops", "puts", "collisions", "replacements", "declined_replacements", "probes_hit", "probes_miss_evicted", "probes_miss_never_stored", "age_ops", "clear_ops", "resize_ops", "mate_values", "movenone_puts", "capacity_checks", "equal_depth_aged_replacements", "seam_index_classes"},
		MinEvals:    20000,
		TimeoutQ:    15 * 60e9,
	})
}

type mEntry struct {
	key   uint64
	move  uint16
	value int
	depth int8
	vtype types.ValueType
	age   int
}

type ttModel struct {
	cap   uint64
	slots map[uint64]*mEntry
}

func expectedCap(mb int) uint64 {
	if mb <= 0 {
		return 0
	}
	n := uint64(mb) * (1 << 20) / 16
	return 1 << uint(63-bits.LeadingZeros64(n))
}

func c11(c *Ctx) {
	rep := c.Rep
	nHist := c.Size(1600, 60000)
	opsPer := c.Size(400, 1000)
	if c.Race {
		nHist /= 4
	}
	sizes := []int{1, 2, 3, 5, 8, 1, 2, 16}
	sampled := 0
	for h := 0; h < nHist; h++ {
		if !c.Mine(h) {
			continue
		}
		r := SubRng(c.Seed, "c11/hist", h)
		mb := sizes[r.Intn(len(sizes))]
		if h%97 == 0 {
			mb = 64
		}
		table := tt.NewTtTable(mb)
		model := &ttModel{cap: expectedCap(mb), slots: map[uint64]*mEntry{}}
		// key pool: a few index classes, several keys per class (same low 24 bits)
		var pool []uint64
		nClasses := 2 + r.Intn(5)
		for cl := 0; cl < nClasses; cl++ {
			low := r.U64() & 0xFFFFFF
			for k := 0; k < 2+r.Intn(4); k++ {
				key := (r.U64() &^ 0xFFFFFF) | low
				if key == 0 {
					key = 1 << 40
				}
				pool = append(pool, key)
			}
			// neighbour index
			pool = append(pool, (r.U64()&^0xFFFFFF)|((low+1)&0xFFFFFF)|1<<30)
		}
		for k := 0; k < 4; k++ {
			if x := r.U64(); x != 0 {
				pool = append(pool, x)
			}
		}
		// index classes on and next to the seams of any partition of the table into equal
		// parts (bulk operations such as ageing work on parts of the table in parallel):
		// multiples of 2048 are part boundaries for every capacity and part count used here
		for cl := 0; cl < 2; cl++ {
			low := uint64(1+r.Intn(255)) * 2048
			if r.Chance(0.3) {
				low-- // the last slot of the part before
			}
			for k := 0; k < 2+r.Intn(2); k++ {
				pool = append(pool, (r.U64()&^0xFFFFFF)|low|1<<41)
			}
			rep.Inc("seam_index_classes")
		}
		var log []string
		note := func(s string) {
			log = append(log, s)
			if len(log) > 60 {
				log = log[len(log)-60:]
			}
		}
		bad := func(key, msg string) {
			rep.Viol(key, msg+fmt.Sprintf(" (history %d, table %d MB)", h, mb), map[string]interface{}{"history": h, "mb": mb, "last_ops": append([]string{}, log...)})
		}
		checkCounts := func() {
			if got := table.Len(); got != uint64(len(model.slots)) {
				bad("len", fmt.Sprintf("Len()=%d but %d slots are occupied", got, len(model.slots)))
			}
			wantHf := 0
			if model.cap > 0 {
				wantHf = int(1000 * uint64(len(model.slots)) / model.cap)
			}
			if got := table.Hashfull(); got != wantHf {
				bad("hashfull", fmt.Sprintf("Hashfull()=%d, 1000*occupied/capacity=%d", got, wantHf))
			}
		}
		lookup := func(key uint64, probe bool) {
			var e *tt.TtEntry
			if model.cap == 0 {
				// zero-size table: any lookup must simply return nothing
				if pn, msg := guard(func() {
					if probe {
						e = table.Probe(position.Key(key))
					} else {
						e = table.GetEntry(position.Key(key))
					}
				}); pn {
					bad("lookup:panic:zero-size-table", "lookup on a table of size 0 panics: "+msg)
					return
				}
				if e != nil {
					bad("lookup:hit-in-empty-table", "lookup returns an entry from a zero-size table")
				}
				return
			}
			if probe {
				e = table.Probe(position.Key(key))
			} else {
				e = table.GetEntry(position.Key(key))
			}
			slot := key & (model.cap - 1)
			m := model.slots[slot]
			if m != nil && m.key == key {
				rep.Inc("probes_hit")
				if e == nil {
					bad("lookup:lost-entry", fmt.Sprintf("lookup(%#x) returns nothing although the key is resident (stored %+v)", key, *m))
					return
				}
				if uint64(e.Key) != key {
					bad("lookup:foreign-key", fmt.Sprintf("lookup(%#x) returns an entry with key %#x", key, uint64(e.Key)))
				}
				if uint16(e.Move.MoveOf()) != m.move {
					bad("lookup:move", fmt.Sprintf("lookup(%#x): move %s, stored %s", key, e.Move.MoveOf().StringUci(), types.Move(m.move).StringUci()))
				}
				if int(e.Move.ValueOf()) != m.value {
					k := "lookup:value"
					if m.move == 0 {
						k = "lookup:value:stored-with-MoveNone"
					}
					bad(k, fmt.Sprintf("lookup(%#x): value %d, stored %d (move %s)", key, e.Move.ValueOf(), m.value, types.Move(m.move).StringUci()))
				}
				if e.Depth != m.depth {
					bad("lookup:depth", fmt.Sprintf("lookup(%#x): depth %d, stored %d", key, e.Depth, m.depth))
				}
				if e.Type != m.vtype {
					bad("lookup:type", fmt.Sprintf("lookup(%#x): type %v, stored %v", key, e.Type, m.vtype))
				}
				if probe && m.age > 0 {
					m.age--
				}
			} else {
				if m != nil {
					rep.Inc("probes_miss_evicted")
				} else {
					rep.Inc("probes_miss_never_stored")
				}
				if e != nil {
					what := "never stored / cleared"
					if m != nil {
						what = fmt.Sprintf("slot holds key %#x", m.key)
					}
					bad("lookup:phantom-hit", fmt.Sprintf("lookup(%#x) returns an entry (key %#x) although that key is absent (%s)", key, uint64(e.Key), what))
				}
			}
		}
		for op := 0; op < opsPer; op++ {
			rep.Eval(1)
			rep.Inc("ops")
			x := r.Intn(100)
			switch {
			case x < 55: // Put
				key := pool[r.Intn(len(pool))]
				var mv types.Move
				if r.Chance(0.2) {
					mv = types.MoveNone
					rep.Inc("movenone_puts")
				} else {
					mv = types.CreateMove(types.Square(r.Intn(64)), types.Square(r.Intn(64)), types.MoveType(r.Intn(4)), types.PieceType(3+r.Intn(4)))
				}
				var val int
				switch r.Intn(4) {
				case 0:
					val = 10000 - r.Intn(130) // mate scores
					if r.Chance(0.5) {
						val = -val
					}
					rep.Inc("mate_values")
				case 1:
					val = []int{-10000, 10000, 0, -1, 1, 9871, -9871, 9872}[r.Intn(8)]
				default:
					val = r.Intn(20001) - 10000
				}
				depth := int8(r.Intn(128))
				if r.Chance(0.5) {
					depth = int8(r.Intn(4)) // small range so that equal depths happen
				}
				vt := types.ValueType(1 + r.Intn(3))
				rep.Inc("puts")
				note(fmt.Sprintf("Put(%#x,%s,d%d,v%d,%v)", key, mv.StringUci(), depth, val, vt))
				rep.Distinct(key ^ uint64(depth)<<56 ^ uint64(uint16(val))<<32 ^ uint64(op))
				table.Put(position.Key(key), mv, depth, types.Value(val), vt, false)
				if model.cap == 0 {
					checkCounts()
					continue
				}
				slot := key & (model.cap - 1)
				newE := &mEntry{key: key, move: uint16(mv.MoveOf()), value: val, depth: depth, vtype: vt, age: 1}
				res := model.slots[slot]
				switch {
				case res == nil:
					model.slots[slot] = newE
				case res.key == key:
					model.slots[slot] = newE
				default:
					rep.Inc("collisions")
					// which one is resident now?
					eNew := table.GetEntry(position.Key(key))
					eOld := table.GetEntry(position.Key(res.key))
					allowed := depth > res.depth || (depth == res.depth && res.age > 1)
					switch {
					case eNew != nil && eOld == nil:
						rep.Inc("replacements")
						if depth == res.depth {
							rep.Inc("equal_depth_aged_replacements")
						}
						if !allowed {
							bad("replacement:not-allowed", fmt.Sprintf("colliding Put(%#x, depth %d) replaced resident %#x (depth %d, age %d) although it is neither deeper nor (equally deep and the resident aged)", key, depth, res.key, res.depth, res.age))
						}
						model.slots[slot] = newE
					case eNew == nil && eOld != nil:
						rep.Inc("declined_replacements")
					default:
						bad("replacement:inconsistent", fmt.Sprintf("after colliding Put both/neither of %#x and %#x are resident", key, res.key))
					}
				}
				checkCounts()
				// the stored entry must read back immediately
				lookup(key, false)
			case x < 80:
				key := pool[r.Intn(len(pool))]
				probe := r.Chance(0.6)
				note(fmt.Sprintf("lookup(%#x,probe=%v)", key, probe))
				lookup(key, probe)
			case x < 88:
				note("AgeEntries")
				rep.Inc("age_ops")
				table.AgeEntries()
				for _, m := range model.slots {
					m.age++
				}
				checkCounts()
			case x < 91:
				note("Clear")
				rep.Inc("clear_ops")
				table.Clear()
				model.slots = map[uint64]*mEntry{}
				checkCounts()
				lookup(pool[r.Intn(len(pool))], false)
			case x < 93:
				nm := []int{0, 1, 2, 3, 5, 8}[r.Intn(6)]
				note(fmt.Sprintf("Resize(%d)", nm))
				rep.Inc("resize_ops")
				table.Resize(nm)
				// a resized table is empty: no Clear needed for Len/Hashfull to be right
				if r.Chance(0.3) {
					table.Clear()
				}
				mb = nm
				model.cap = expectedCap(nm)
				model.slots = map[uint64]*mEntry{}
				checkCounts()
			default:
				checkCounts()
			}
		}
		// final sweep: every pool key
		for _, k := range pool {
			lookup(k, false)
		}
		if sampled < 2 {
			sampled++
			rep.Sample(map[string]interface{}{"table_mb": mb, "ops": append([]string{}, log[:min(len(log), 12)]...)})
		}
	}
	// capacity, behaviourally: x and x+cap share a slot, x and x+cap/2 do not
	for i, mb := range []int{1, 2, 3, 4, 5, 6, 7, 8, 9, 12, 16, 17, 31, 32, 33, 63, 64, 100} {
		if !c.Mine(i) {
			continue
		}
		capExp := expectedCap(mb)
		t := tt.NewTtTable(mb)
		rep.Eval(1)
		rep.Inc("capacity_checks")
		x := uint64(0x5555AAAA00000001)
		mv := types.CreateMove(types.SqE2, types.SqE4, types.Normal, types.PtNone)
		t.Put(position.Key(x), mv, 5, 10, types.EXACT, false)
		t.Put(position.Key(x+capExp/2), mv, 5, 10, types.EXACT, false)
		if t.Len() != 2 || t.GetEntry(position.Key(x)) == nil || t.GetEntry(position.Key(x+capExp/2)) == nil {
			rep.Viol("capacity:too-small", fmt.Sprintf("%d MB: keys x and x+%d (half the expected capacity %d) collide", mb, capExp/2, capExp), map[string]interface{}{"mb": mb})
		}
		t.Put(position.Key(x+capExp), mv, 9, 10, types.EXACT, false)
		if t.Len() != 2 || t.GetEntry(position.Key(x)) != nil || t.GetEntry(position.Key(x+capExp)) == nil {
			rep.Viol("capacity:too-large-or-not-power-of-two", fmt.Sprintf("%d MB: keys x and x+%d (the expected capacity) do not share a slot", mb, capExp), map[string]interface{}{"mb": mb})
		}
		if capExp*16 > uint64(mb)<<20 || capExp*32 <= uint64(mb)<<20 {
			rep.Viol("capacity:oracle", "harness capacity formula wrong", nil)
		}
	}
	// key 0 (labelled case): a full 64-bit key like any other
	if c.Shard == 0 {
		t := tt.NewTtTable(1)
		rep.Eval(3)
		if e := t.GetEntry(0); e != nil {
			rep.Viol("key0:phantom-hit", "GetEntry(0) on an empty table returns an entry (key 0 is used as the empty-slot marker)", map[string]interface{}{"ops": []string{"NewTtTable(1)", "GetEntry(0)"}})
		}
		mv := types.CreateMove(types.SqE2, types.SqE4, types.Normal, types.PtNone)
		t.Put(0, mv, 3, 10, types.EXACT, false)
		t.Put(0, mv, 4, 11, types.EXACT, false)
		if t.Len() != 1 {
			rep.Viol("key0:len", fmt.Sprintf("after two Put(0,...) Len()=%d, one slot is occupied", t.Len()), map[string]interface{}{"ops": []string{"Put(0)", "Put(0)", "Len"}})
		}
	}
}

func min(a, b int) int {
	if a < b {
		return a
	}
	return b
}
