package main

import (
	"fmt"

	"github.com/frankkopp/FrankyGo/internal/config"
	"github.com/frankkopp/FrankyGo/internal/position"
	"github.com/frankkopp/FrankyGo/internal/search"
	"github.com/frankkopp/FrankyGo/internal/types"
	rc "github.com/frankkopp/FrankyGo/verifh/refchess"
)

func init() {
	register(&CheckSpec{
		ID: "C07", Fn: c07,
		Rule:        "one evaluation = one mate/stalemate classification observed through the verif hook inside search/qsearch (position FEN handed to refchess: legal-move count and in-check status), over searches of blocked-pawn / zugzwang / few-move / ordinary positions at depth 3-8 under the default configuration and random combinations of the pruning switches (FP, LMP, LMR, null move, razoring, RFP, QFP); plus terminal roots through the public result; distinct = distinct classified positions (FEN identity, kind); in 40% of the random-pruning searches the remaining switches are varied too (hash table on/off and its sub-switches, PVS, killers, history, counter moves, MDP, extensions, IID with IIDDepth 2-6 so that it runs at these depths); a fifth of the roots carry a half-move clock of 94-99 and a fifth a history of repeated positions (moves answered by the draw shortcut without a child search)",
		Assumptions: []string{"the hook only reads the position; refchess decides legality", "a classification is only made when the search was not stopped (the engine's own guard)"},
		Required:    []string{"searches", "classifications", "mate_classifications", "stalemate_classifications", "qsearch_mate_classifications", "searches_all_pruning_on", "searches_random_pruning", "terminal_roots", "searches_with_fp_prunings", "searches_other_switches_varied", "searches_with_iid", "roots_fifty_move_edge", "roots_with_cycle_history", "stalemate_prone_root_searches"},
		MinEvals:    1000,
		TimeoutQ:    15 * 60e9,
	})
}

var c07Positions = []string{
	"8/k7/3p4/p2P1p2/P2P1P2/8/8/K7 w - - 0 1",
	"6k1/8/6p1/5pPp/5P1P/8/8/QR4K1 b - - 0 1",
	"6k1/8/6p1/5pPp/5P1P/8/8/QR4K1 w - - 0 1",
	"8/8/p1p5/1p5p/1P5p/8/PPP2K1p/4R1rk w - - 0 1",
	"7k/5K2/5P1p/3p4/6P1/3p4/8/8 w - - 0 1",
	"8/8/1p1r1k2/p1pPN1p1/P3KnP1/1P6/8/3R4 b - - 0 1",
	"k7/p7/P7/8/8/8/5Q1R/7K w - - 0 1",
	"k7/p1p5/P1P5/8/8/8/5QR1/7K w - - 0 1",
	"7k/7p/7P/8/8/8/QR6/K7 b - - 0 1",
	"5k2/5p2/5P2/8/8/8/1QR5/K7 b - - 0 1",
	"8/8/8/8/8/p1p5/PkP5/1R2K3 b - - 0 1",
	"kb6/p1p5/P1P5/8/8/8/6RR/6K1 b - - 0 1",
	"r1bqkbnr/pppp1ppp/2n5/4p3/4P3/5N2/PPPP1PPP/RNBQKB1R w KQkq - 2 3",
	"r1bqk2r/pppp1ppp/2n2n2/2b1p3/2B1P3/2N2N2/PPPP1PPP/R1BQK2R w KQkq - 6 5",
	"r3k2r/p1ppqpb1/bn2pnp1/3PN3/1p2P3/2N2Q1p/PPPBBPPP/R3K2R w KQkq - 0 1",
	"2rq1rk1/pb1n1ppN/4p3/1pb5/3P1Pn1/P1N5/1PQ1B1PP/R1B2RK1 b - - 0 16",
	"8/6B1/p5p1/Pp4kp/1P5r/5P1Q/4q1PK/8 w - - 0 32",
	"1q1k4/2Rr4/8/2Q3K1/8/8/8/8 w - - 0 1",
	"4k3/8/8/8/8/8/4P3/4K3 w - - 0 1",
	"8/8/8/4k3/8/8/8/KQ6 w - - 0 1",
	"8/2p5/3p4/KP5r/1R3p1k/8/4P1P1/8 w - - 0 1",
	"6k1/5ppp/8/8/8/8/5PPP/R5K1 w - - 0 1",
	"3r2k1/pp3ppp/2p5/8/3qP3/1B6/PP3QPP/6K1 w - - 0 1",
	// one move before a stalemate in which the stalemated side still owns a hemmed-in officer
	// (so the search tries its null move there), with checking alternatives next to it
	"k5q1/8/8/8/8/1p6/1P6/B6K b - - 0 1",
	"k7/6q1/8/8/8/1p6/1P6/B6K b - - 0 1",
	"k7/8/8/8/6q1/p1p5/P1P5/RB5K b - - 0 1",
	"k7/8/8/8/1p4q1/1Pp5/2P5/N6K b - - 0 1",
	"1b5K/1p6/1P4Q1/8/8/8/8/k7 w - - 0 1",
	"b6k/1p6/1P6/8/8/6Q1/8/K7 w - - 0 1",
}

type legalInfo struct {
	legal   int
	inCheck bool
}

func c07(c *Ctx) {
	rep := c.Rep
	cache := map[string]legalInfo{}
	var curCfg string
	var curRoot string
	search.VerifTerminalHook = func(p *position.Position, kind int, ply int, depth int) {
		fen := p.StringFen()
		li, ok := cache[fen]
		if !ok {
			b, err := rc.ParseFEN(fen)
			if err != nil {
				rep.Viol("hook:unparseable-fen", "terminal hook got a position whose FEN refchess cannot parse: "+fen, nil)
				return
			}
			li = legalInfo{len(b.Legal()), b.InCheck(b.White)}
			cache[fen] = li
		}
		rep.Eval(1)
		rep.Inc("classifications")
		kname := [...]string{"mate", "stalemate", "qsearch-mate"}[kind]
		switch kind {
		case search.VerifKindMate:
			rep.Inc("mate_classifications")
		case search.VerifKindStalemate:
			rep.Inc("stalemate_classifications")
		default:
			rep.Inc("qsearch_mate_classifications")
		}
		rep.DistinctStr(canonOf(fen) + kname)
		payload := map[string]interface{}{"classified_fen": fen, "kind": kname, "ply": ply, "depth": depth, "root": curRoot, "config": curCfg}
		if li.legal > 0 {
			rep.Viol("terminal:"+kname+":has-legal-moves", fmt.Sprintf("search classifies %s as %s at ply %d although the side to move has %d legal moves (root %s, %s)", fen, kname, ply, li.legal, curRoot, curCfg), payload)
			return
		}
		if (kind == search.VerifKindStalemate) == li.inCheck {
			rep.Viol("terminal:"+kname+":wrong-kind", fmt.Sprintf("search classifies %s as %s but in-check=%v (root %s)", fen, kname, li.inCheck, curRoot), payload)
		}
	}
	roots := append([]string{}, c07Positions...)
	for i, f := range corpusRoots() {
		if i%6 == 0 {
			roots = append(roots, f)
		}
	}
	s, _ := newSearch(4)
	nSearch := c.Size(480, 160000)
	for i := 0; i < nSearch; i++ {
		if !c.Mine(i) {
			continue
		}
		r := SubRng(c.Seed, "c07/search", i)
		fen := roots[i%len(roots)]
		if i >= len(roots)*2 {
			fen = roots[r.Intn(len(roots))]
		}
		b0 := rc.MustFEN(fen)
		// sometimes walk a few plies first
		if r.Chance(0.4) {
			steps := playout(r, b0, 1+r.Intn(10), defaultBias)
			if len(steps) > 0 {
				b0 = steps[len(steps)-1].After
			}
		}
		if len(b0.Legal()) == 0 {
			continue
		}
		restoreSearchCfg()
		var ps pruneSwitches
		if i%3 == 0 {
			ps = pruneSwitches{true, true, true, true, true, true, true}
			rep.Inc("searches_all_pruning_on")
			curCfg = "default"
		} else {
			ps = pruneFromMask(r.Intn(128))
			rep.Inc("searches_random_pruning")
			curCfg = fmt.Sprintf("prune=%+v", ps)
			if r.Chance(0.3) {
				config.Settings.Search.UseQuiescence = r.Chance(0.5)
				config.Settings.Search.UseTTValue = r.Chance(0.5)
				curCfg += fmt.Sprintf(" qs=%v ttvalue=%v", config.Settings.Search.UseQuiescence, config.Settings.Search.UseTTValue)
			}
			if r.Chance(0.4) {
				// "every configuration": the remaining switches too, and internal iterative
				// deepening with parameters that let it run at the depths searched here
				sc := &config.Settings.Search
				sc.UseTT, sc.UseTTMove, sc.UseQSTT = r.Chance(0.5), r.Chance(0.7), r.Chance(0.7)
				sc.UsePVS, sc.UseKiller, sc.UseHistoryCounter, sc.UseCounterMoves = r.Chance(0.7), r.Chance(0.7), r.Chance(0.7), r.Chance(0.7)
				sc.UseMDP, sc.UseExt, sc.UseCheckExt = r.Chance(0.7), r.Chance(0.7), r.Chance(0.7)
				sc.UseIID = r.Chance(0.8)
				sc.IIDDepth, sc.IIDReduction = []int{2, 3, 4, 6}[r.Intn(4)], 1+r.Intn(2)
				rep.Inc("searches_other_switches_varied")
				curCfg += fmt.Sprintf(" tt=%v/%v/%v pvs=%v killer=%v hist=%v counter=%v mdp=%v ext=%v/%v iid=%v(%d,%d)", sc.UseTT, sc.UseTTMove, sc.UseQSTT, sc.UsePVS, sc.UseKiller, sc.UseHistoryCounter, sc.UseCounterMoves, sc.UseMDP, sc.UseExt, sc.UseCheckExt, sc.UseIID, sc.IIDDepth, sc.IIDReduction)
			}
		}
		ps.apply()
		depth := 3 + r.Intn(4)
		if len(b0.Legal()) < 12 {
			depth += 2
		}
		curRoot = b0.FEN()
		if r.Chance(0.7) {
			s.NewGame()
		}
		p := engPos(curRoot)
		switch hk := r.Intn(10); {
		case hk < 2:
			// the fifty-move rule inside the horizon: every quiet reply is an immediate draw
			fb := *b0
			fb.Half, fb.Ep = 94+r.Intn(6), -1
			if fb.Full < 60 {
				fb.Full = 60
			}
			if fb.Validate() == nil {
				curRoot = fb.FEN()
				p = engPos(curRoot)
				rep.Inc("roots_fifty_move_edge")
			}
		case hk < 4:
			// a history full of repeated positions: replies that repeat are immediate draws
			steps := buildCycleGame(r, b0, 8+r.Intn(24), rep)
			if len(steps) > 0 && len(steps[len(steps)-1].After.Legal()) > 0 {
				for _, st := range steps {
					p.DoMove(toEng(st.Move))
				}
				curRoot = fmt.Sprintf("%s + %d plies of cycles -> %s", b0.FEN(), len(steps), steps[len(steps)-1].After.FEN())
				rep.Inc("roots_with_cycle_history")
			}
		}
		rep.Begin(fmt.Sprintf("search %s depth %d %s", curRoot, depth, curCfg))
		runSearch(s, p, search.Limits{Depth: depth, Nodes: uint64(c.Size(150000, 400000))})
		rep.Inc("searches")
		if s.Statistics().FpPrunings > 0 {
			rep.Inc("searches_with_fp_prunings")
		}
		if s.Statistics().IIDsearches > 0 {
			rep.Inc("searches_with_iid")
		}
		if s.Statistics().LmpCuts > 0 {
			rep.Inc("searches_with_lmp_cuts")
		}
		if i < 3 {
			rep.Sample(map[string]interface{}{"root": curRoot, "depth": depth, "config": curCfg, "checkmates": s.Statistics().Checkmates, "stalemates": s.Statistics().Stalemates})
		}
	}
	// the stalemate-prone roots systematically: every depth, with and without hash table
	for i, f := range c07Positions[len(c07Positions)-6:] {
		if !c.Mine(i) {
			continue
		}
		for depth := 3; depth <= 8; depth++ {
			for _, useTT := range []bool{true, false} {
				restoreSearchCfg()
				config.Settings.Search.UseTT = useTT
				curCfg = fmt.Sprintf("default tt=%v", useTT)
				curRoot = f
				s.NewGame()
				rep.Begin(fmt.Sprintf("search %s depth %d %s", curRoot, depth, curCfg))
				runSearch(s, engPos(f), search.Limits{Depth: depth, Nodes: 400000})
				rep.Inc("searches")
				rep.Inc("stalemate_prone_root_searches")
			}
		}
	}
	// terminal roots through the public result
	restoreSearchCfg()
	idx := 0
	for _, f := range corpusRoots() {
		b := rc.MustFEN(f)
		if len(b.Legal()) != 0 {
			continue
		}
		idx++
		if !c.Mine(idx) {
			continue
		}
		curRoot, curCfg = f, "default"
		res := runSearch(s, engPos(f), search.Limits{Depth: 3})
		rep.Eval(1)
		rep.Inc("terminal_roots")
		want := types.ValueDraw
		if b.InCheck(b.White) {
			want = -types.ValueCheckMate
		}
		if res.BestValue != want {
			rep.Viol("terminal-root:value", fmt.Sprintf("root without legal moves %s: BestValue=%d want %d", f, res.BestValue, want), map[string]interface{}{"fen": f})
		}
		if res.BestMove != types.MoveNone {
			rep.Viol("terminal-root:move", fmt.Sprintf("root without legal moves %s: BestMove=%s", f, res.BestMove.StringUci()), map[string]interface{}{"fen": f})
		}
	}
	search.VerifTerminalHook = nil
}
