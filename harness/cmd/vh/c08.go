package main

import (
	"fmt"
	"sort"
	"strings"

	"github.com/frankkopp/FrankyGo/internal/config"
	"github.com/frankkopp/FrankyGo/internal/history"
	"github.com/frankkopp/FrankyGo/internal/movegen"
	"github.com/frankkopp/FrankyGo/internal/position"
	"github.com/frankkopp/FrankyGo/internal/types"
	rc "github.com/frankkopp/FrankyGo/verifh/refchess"
)

func init() {
	register(&CheckSpec{
		ID: "C08", Fn: c08,
		Rule:        "one evaluation = one complete phased iteration (GetNextMove until MoveNone) compared as a multiset with the batch generator for the same mode, under a generated generator state (PV move drawn from every stage of the position's pseudo-legal set, killers members/non-members, random history and counter-move tables, generator reused across positions with/without ResetOnDemand, interleaved and abandoned iterations); plus partition NonQuiet+Quiet=All for both values of UsePromNonQuiet, evasion-mode sets (batch, phased, and phased on a generator that last worked - partially or to the end - on another in-check position without reset) against refchess pseudo-legality/legality, HasLegalMove against refchess; distinct = distinct (position, mode, generator state) triples",
		Assumptions: []string{"PV moves are drawn from the position's pseudo-legal set (SetPvMove with an unplayable move is outside the property)", "refchess pseudo-legal definition of Appendix A"},
		Required:    []string{"phased_iterations", "pv_from_capture", "pv_from_quiet", "pv_from_promotion", "pv_from_castling", "pv_from_king", "pv_last_of_stage", "killers_nonmember", "history_tables", "reused_without_reset", "interleaved", "abandoned", "evasion_positions", "evasion_double_check", "evasion_reused_without_reset", "partition_checks", "haslegal_checks", "haslegal_false", "only_promotions_legal", "hemmed_in_terminal_positions", "only_double_push_legal"},
		MinEvals:    20000,
	})
}

type mset map[uint32]int

func msetOf(ms []types.Move) mset {
	r := mset{}
	for _, m := range ms {
		r[uint32(m.MoveOf())]++
	}
	return r
}

func msetDiff(a, b mset) (onlyA, onlyB []string) {
	for k, n := range a {
		if b[k] != n {
			onlyA = append(onlyA, fmt.Sprintf("%sx%d(vs %d)", types.Move(k).StringUci(), n, b[k]))
		}
	}
	for k, n := range b {
		if _, ok := a[k]; !ok {
			onlyB = append(onlyB, fmt.Sprintf("%sx%d", types.Move(k).StringUci(), n))
		}
	}
	sort.Strings(onlyA)
	sort.Strings(onlyB)
	return
}

var modeNames = map[movegen.GenMode]string{movegen.GenAll: "all", movegen.GenNonQuiet: "nonquiet", movegen.GenQuiet: "quiet"}

func batch(mg *movegen.Movegen, p *position.Position, mode movegen.GenMode, evasion bool) []types.Move {
	ml := mg.GeneratePseudoLegalMoves(p, mode, evasion)
	r := make([]types.Move, len(*ml))
	copy(r, *ml)
	return r
}

func phased(mg *movegen.Movegen, p *position.Position, mode movegen.GenMode, evasion bool) []types.Move {
	var r []types.Move
	for i := 0; i < 600; i++ {
		m := mg.GetNextMove(p, mode, evasion)
		if m == types.MoveNone {
			return r
		}
		r = append(r, m)
	}
	return r
}

// stalemates (and one mate) whose side to move owns officers that can go nowhere
var c08Hemmed = []string{
	"k7/8/8/8/8/1p4q1/1P6/B6K w - - 0 1",
	"k7/8/8/8/8/p1p3q1/P1P5/RB5K w - - 0 1",
	"k7/8/8/8/1p6/1Pp3q1/2P5/N6K w - - 0 1",
	"k7/8/8/8/8/1p6/1P4r1/B5rK w - - 0 1",
}

// positions whose only legal move is an en-passant capture (the mover is in check by the pawn
// that has just made its double step, every king move is covered); with two flanking pawns of
// which one is pinned on its file - each side of the pair once - and with a single capturer.
// Each is confirmed against refchess at run time (all legal moves of kind EnPassant) before use.
var c08OnlyEnPassant = []string{
	"1rr4k/8/4p3/2PpP3/2K5/7q/8/6b1 w - d6 0 1",
	"k4rr1/8/3p4/3PpP2/5K2/q7/8/1b6 w - e6 0 1",
	"1r5k/8/4p3/3pP3/2K5/7q/8/6b1 w - d6 0 1",
	"k5r1/8/3p4/3Pp3/5K2/q7/8/1b6 w - e6 0 1",
}

var c08OnlyDoublePush = []string{
	"1q6/q7/k7/3q4/3q4/8/4P3/7K w - - 0 20",
	"6q1/6k1/5b2/6q1/1r6/8/3P3q/K7 w - - 0 20",
	"8/q2k2r1/4r3/8/6q1/8/3P1K2/7q w - - 0 20",
	"8/6q1/4k1q1/3b4/5bn1/8/3P4/K7 w - - 0 20",
	"2k5/7q/8/4q3/8/8/n2P2n1/K1n5 w - - 0 20",
	"1k1n4/8/b4q2/6q1/8/8/2P1K3/7r w - - 0 20",
	"b1b5/8/3k4/8/8/7r/4P1K1/3q2b1 w - - 0 20",
}

func c08(c *Ctx) {
	rep := c.Rep
	ref := movegen.NewMoveGen() // reference batch generator, no ordering state
	work := movegen.NewMoveGen()
	var prev *position.Position
	var prevCheck *position.Position // the last in-check position probed (a copy)
	evMg := movegen.NewMoveGen()

	probe := func(p *position.Position, b *rc.Board, r *Rng, ctx map[string]interface{}) {
		fen := b.FEN()
		mk := func(extra map[string]interface{}) map[string]interface{} {
			m := map[string]interface{}{"fen": fen, "UsePromNonQuiet": config.Settings.Search.UsePromNonQuiet}
			for k, v := range ctx {
				m[k] = v
			}
			for k, v := range extra {
				m[k] = v
			}
			return m
		}
		inCheck := b.InCheck(b.White)
		refLegal := b.Legal()
		refPseudo := map[uint32]bool{}
		for _, m := range b.PseudoLegal() {
			refPseudo[rcKey(m)] = true
		}
		all := batch(ref, p, movegen.GenAll, false)

		// --- partition
		nq := batch(ref, p, movegen.GenNonQuiet, false)
		q := batch(ref, p, movegen.GenQuiet, false)
		rep.Eval(1)
		rep.Inc("partition_checks")
		if a, bb := msetDiff(msetOf(append(append([]types.Move{}, nq...), q...)), msetOf(all)); len(a)+len(bb) > 0 {
			rep.Viol(fmt.Sprintf("partition:promnonquiet=%v", config.Settings.Search.UsePromNonQuiet), fmt.Sprintf("NonQuiet+Quiet != All in %s: only in parts %v, only in All %v", fen, a, bb), mk(nil))
		}
		// batch GenAll against refchess pseudo-legal (no evasion)
		rep.Eval(1)
		{
			want := mset{}
			for k := range refPseudo {
				want[k] = 1
			}
			if a, bb := msetDiff(msetOf(all), want); len(a)+len(bb) > 0 {
				rep.Viol("batch-vs-rules-pseudolegal", fmt.Sprintf("batch pseudo-legal set differs from the rules in %s: engine-only %v, rules-only %v", fen, a, bb), mk(nil))
			}
		}

		// --- phased vs batch under generator states
		for _, mode := range []movegen.GenMode{movegen.GenAll, movegen.GenNonQuiet, movegen.GenQuiet} {
			set := batch(ref, p, mode, false)
			want := msetOf(set)
			nStates := 3
			for st := 0; st < nStates; st++ {
				mg := work
				desc := []string{}
				fresh := r.Chance(0.2)
				if fresh {
					mg = movegen.NewMoveGen()
					desc = append(desc, "fresh-generator")
				}
				reset := fresh || r.Chance(0.75) || prev == nil || prev.ZobristKey() == p.ZobristKey()
				if reset {
					mg.ResetOnDemand()
					desc = append(desc, "reset")
				} else {
					// ResetOnDemand would also clear the PV; without reset no PV is set
					// (a stale PV of another position is outside the property), so make
					// sure none is pending
					// reuse across positions: the generator last worked on another
					// position (partially or to the end) and now meets p without a reset
					mg.ResetOnDemand()
					n := 600
					if r.Chance(0.5) {
						n = 1 + r.Intn(8)
					}
					for i := 0; i < n; i++ {
						if mg.GetNextMove(prev, mode, false) == types.MoveNone {
							break
						}
					}
					desc = append(desc, "no-reset")
					rep.Inc("reused_without_reset")
				}
				// killers
				if r.Chance(0.7) && len(all) > 0 {
					k := all[r.Intn(len(all))]
					mg.StoreKiller(k)
					desc = append(desc, "killer:"+k.StringUci())
					if r.Chance(0.5) {
						// non-member killer (from elsewhere)
						k2 := types.CreateMove(types.Square(r.Intn(64)), types.Square(r.Intn(64)), types.Normal, types.PtNone)
						if k2 != types.MoveNone {
							mg.StoreKiller(k2)
							rep.Inc("killers_nonmember")
							desc = append(desc, "killer-nonmember:"+k2.StringUci())
						}
					}
				}
				// history
				if r.Chance(0.5) {
					h := history.NewHistory()
					for i := 0; i < 40; i++ {
						h.HistoryCount[r.Intn(2)][r.Intn(64)][r.Intn(64)] = int64(r.Intn(200000))
					}
					for i := 0; i < 10 && len(all) > 0; i++ {
						h.CounterMoves[r.Intn(64)][r.Intn(64)] = all[r.Intn(len(all))]
					}
					if lm := p.LastMove(); lm != types.MoveNone && len(all) > 0 {
						h.CounterMoves[lm.From()][lm.To()] = all[r.Intn(len(all))]
					}
					mg.SetHistoryData(h)
					rep.Inc("history_tables")
					desc = append(desc, "history")
				} else {
					mg.SetHistoryData(nil)
				}
				// PV move from the full pseudo-legal set
				pv := types.MoveNone
				if reset && len(all) > 0 && r.Chance(0.85) {
					pv = all[r.Intn(len(all))]
					// bias towards special stages
					for try := 0; try < 3 && r.Chance(0.5); try++ {
						cand := all[r.Intn(len(all))]
						if cand.MoveType() != types.Normal || p.GetPiece(cand.From()).TypeOf() == types.King {
							pv = cand
						}
					}
					if r.Chance(0.15) {
						pv = all[len(all)-1]
					}
					mg.SetPvMove(pv)
					desc = append(desc, "pv:"+pv.StringUci())
					switch {
					case pv.MoveType() == types.Castling:
						rep.Inc("pv_from_castling")
					case pv.MoveType() == types.Promotion:
						rep.Inc("pv_from_promotion")
					case p.GetPiece(pv.From()).TypeOf() == types.King:
						rep.Inc("pv_from_king")
					case p.IsCapturingMove(pv):
						rep.Inc("pv_from_capture")
					default:
						rep.Inc("pv_from_quiet")
					}
					if len(set) > 0 && pv == set[len(set)-1] {
						rep.Inc("pv_last_of_stage")
					}
				}
				// interleave / abandon
				if r.Chance(0.15) && prev != nil && prev.ZobristKey() != p.ZobristKey() {
					// start here, switch to another position, come back
					for i := 0; i < 1+r.Intn(4); i++ {
						mg.GetNextMove(p, mode, false)
					}
					for i := 0; i < 1+r.Intn(4); i++ {
						mg.GetNextMove(prev, mode, false)
					}
					rep.Inc("interleaved")
					desc = append(desc, "interleaved")
					// the PV is kept by the generator across the automatic reset
				} else if r.Chance(0.15) {
					for i := 0; i < 1+r.Intn(6); i++ {
						mg.GetNextMove(p, mode, false)
					}
					pvKeep := pv
					mg.ResetOnDemand()
					if pvKeep != types.MoveNone {
						mg.SetPvMove(pvKeep)
					}
					rep.Inc("abandoned")
					desc = append(desc, "abandoned+reset")
				}
				got := phased(mg, p, mode, false)
				rep.Eval(1)
				rep.Inc("phased_iterations")
				rep.DistinctStr(b.RepKey() + modeNames[mode] + strings.Join(desc, ","))
				state := strings.Join(desc, ",")
				if a, bb := msetDiff(msetOf(got), want); len(a)+len(bb) > 0 {
					kind := "mismatch"
					if len(bb) > 0 && len(a) == 0 {
						kind = "missing"
					} else if len(a) > 0 && len(bb) == 0 {
						kind = "extra-or-repeated"
					}
					pvIn := "pv-none"
					if pv != types.MoveNone {
						if want[uint32(pv)] > 0 {
							pvIn = "pv-in-set"
						} else {
							pvIn = "pv-not-in-mode-set"
						}
					}
					rep.Viol(fmt.Sprintf("phased-vs-batch:%s:%s:%s", modeNames[mode], kind, pvIn), fmt.Sprintf("mode %s, state [%s] in %s: phased-only/miscounted %v, batch-only %v", modeNames[mode], state, fen, a, bb), mk(map[string]interface{}{"mode": modeNames[mode], "state": state}))
				}
				if pv != types.MoveNone && want[uint32(pv)] > 0 && len(got) > 0 && got[0] != pv {
					rep.Viol("pv-not-first:"+modeNames[mode], fmt.Sprintf("mode %s, state [%s] in %s: PV %s belongs to the set but %s was delivered first", modeNames[mode], state, fen, pv.StringUci(), got[0].StringUci()), mk(map[string]interface{}{"mode": modeNames[mode], "state": state}))
				}
			}
		}

		// --- evasion mode
		if inCheck {
			rep.Inc("evasion_positions")
			if len(b.Attackers(b.KingSq(b.White), !b.White)) >= 2 {
				rep.Inc("evasion_double_check")
			}
			legalSet := mset{}
			for _, m := range refLegal {
				legalSet[rcKey(m)] = 1
			}
			check := func(name string, ms []types.Move) {
				rep.Eval(1)
				seen := mset{}
				for _, m := range ms {
					k := uint32(m.MoveOf())
					seen[k]++
					if seen[k] == 2 {
						rep.Viol("evasion:"+name+":repeated", fmt.Sprintf("evasion generation (%s) returns %s twice in %s", name, m.StringUci(), fen), mk(nil))
					}
					if !refPseudo[k] {
						rep.Viol("evasion:"+name+":not-pseudolegal", fmt.Sprintf("evasion generation (%s) returns %s which is not pseudo-legal in %s", name, m.StringUci(), fen), mk(nil))
					}
				}
				for k := range legalSet {
					if seen[k] == 0 {
						rep.Viol("evasion:"+name+":legal-move-omitted", fmt.Sprintf("evasion generation (%s) omits the legal move %s in %s", name, types.Move(k).StringUci(), fen), mk(nil))
					}
				}
			}
			check("batch", batch(ref, p, movegen.GenAll, true))
			work.ResetOnDemand()
			if len(all) > 0 && r.Chance(0.6) {
				// PV from the legal moves (a tt move of an in-check node is an evasion)
				if len(refLegal) > 0 {
					work.SetPvMove(toEng(refLegal[r.Intn(len(refLegal))]))
				}
			}
			check("phased", phased(work, p, movegen.GenAll, true))
			// the same generator met another in-check position before (its evasion iteration
			// abandoned after a few moves, as after a beta cut, or run to the end) and now
			// meets p without a reset: a different position restarts the generator by itself
			if prevCheck != nil && prevCheck.ZobristKey() != p.ZobristKey() {
				evMg.ResetOnDemand()
				n := 600
				if r.Chance(0.7) {
					n = 1 + r.Intn(3)
				}
				for i := 0; i < n; i++ {
					if evMg.GetNextMove(prevCheck, movegen.GenAll, true) == types.MoveNone {
						break
					}
				}
				rep.Inc("evasion_reused_without_reset")
				check("phased-no-reset", phased(evMg, p, movegen.GenAll, true))
			}
			cp := *p
			prevCheck = &cp
		}

		// --- HasLegalMove
		rep.Eval(1)
		rep.Inc("haslegal_checks")
		want := len(refLegal) > 0
		if !want {
			rep.Inc("haslegal_false")
		}
		onlyProm := want
		for _, m := range refLegal {
			if m.Kind != rc.Promotion {
				onlyProm = false
			}
		}
		if onlyProm {
			rep.Inc("only_promotions_legal")
		}
		if got := ref.HasLegalMove(p); got != want {
			k := "haslegal:false-negative"
			if got {
				k = "haslegal:false-positive"
			} else if onlyProm {
				k += ":only-promotions"
			}
			rep.Viol(k, fmt.Sprintf("HasLegalMove()=%v but the position has %d legal moves: %s", got, len(refLegal), fen), mk(nil))
		}
		prev = p
	}

	// positions without a legal move in which officers of the side to move "attack" only their
	// own neighbours (hemmed-in pieces in stalemates): the quick test must not count those
	for i, f := range c08Hemmed {
		if !c.Mine(i) {
			continue
		}
		for _, b := range []*rc.Board{rc.MustFEN(f), rc.MustFEN(f).Mirror()} {
			rep.Inc("hemmed_in_terminal_positions")
			probe(engPos(b.FEN()), b, SubRng(c.Seed, "c08/hemmed", i), map[string]interface{}{"kind": "hemmed-in officers, no legal move"})
		}
	}
	// positions whose only legal move is an en-passant capture (one or two capturers, one pinned)
	for i, f := range c08OnlyEnPassant {
		if !c.Mine(i) {
			continue
		}
		for _, b := range []*rc.Board{rc.MustFEN(f), rc.MustFEN(f).Mirror()} {
			lm := b.Legal()
			ok := len(lm) > 0
			for _, m := range lm {
				if m.Kind != rc.EnPassant {
					ok = false
				}
			}
			if !ok {
				rep.Inc("only_en_passant_template_rejected")
				continue
			}
			rep.Inc("only_en_passant_legal")
			probe(engPos(b.FEN()), b, SubRng(c.Seed, "c08/onlyep", i), map[string]interface{}{"kind": "only legal move is an en-passant capture"})
		}
	}
	// positions (found by a random search with refchess) whose only legal move is a double
	// pawn push that interposes: the quick test has to find exactly that move
	for i, f := range c08OnlyDoublePush {
		if !c.Mine(i) {
			continue
		}
		for _, b := range []*rc.Board{rc.MustFEN(f), rc.MustFEN(f).Mirror()} {
			rep.Inc("only_double_push_legal")
			probe(engPos(b.FEN()), b, SubRng(c.Seed, "c08/dpush", i), map[string]interface{}{"kind": "only legal move is a double pawn push"})
		}
	}
	nPlay := c.Size(150, 40000)
	nSynth := c.Size(1500, 400000)
	gi := 0
	sampled := 0
	forEachGame(c, "c08", nPlay, 80, nSynth, func(g Game) {
		gi++
		r := SubRng(c.Seed, "c08/state", gi*977+c.Shard)
		config.Settings.Search.UsePromNonQuiet = gi%2 == 0
		p := engPos(g.Start.FEN())
		probe(p, g.Start, r, map[string]interface{}{"kind": g.Kind})
		for i, st := range g.Steps {
			p.DoMove(toEng(st.Move))
			if i%5 == 4 || st.Move.Kind != rc.Normal || st.After.InCheck(st.After.White) {
				// a copy so that "prev" stays valid while p moves on
				cp := *p
				probe(&cp, st.After, r, map[string]interface{}{"start": g.Start.FEN(), "moves": stepMoves(g.Steps, i+1)})
			}
		}
		if sampled < 2 {
			sampled++
			rep.Sample(map[string]interface{}{"fen": g.Start.FEN(), "modes": "all/nonquiet/quiet x 3 generator states + evasion + HasLegalMove"})
		}
	})
	config.Settings.Search.UsePromNonQuiet = true
	_ = sort.Strings
}
