// Package refchess is an independent, deliberately naive implementation of the
// rules of chess used as the oracle of the verification harness.  It shares no
// code, tables or representation with FrankyGo: plain 8x8 array, ray walking,
// make-by-copy.  Squares are numbered a1=0, b1=1 ... h8=63 (the numbering FEN
// readers commonly use; it happens to coincide with FrankyGo's so that moves can
// be translated field by field).
package refchess

import (
	"errors"
	"fmt"
	"strconv"
	"strings"
)

// Piece letters: upper case white, lower case black, 0 = empty.
type Board struct {
	Sq     [64]byte
	White  bool    // side to move
	Castle [4]bool // K Q k q
	Ep     int     // -1 or target square
	Half   int
	Full   int
}

type Kind int

const (
	Normal Kind = iota
	Promotion
	EnPassant
	Castling
)

type Move struct {
	From, To int
	Kind     Kind
	Promo    byte // 'n','b','r','q' for promotions, else 0
}

const StartFEN = "rnbqkbnr/pppppppp/8/8/8/8/PPPPPPPP/RNBQKBNR w KQkq - 0 1"

func File(sq int) int { return sq & 7 }
func Rank(sq int) int { return sq >> 3 }
func Sq(f, r int) int { return r*8 + f }
func SqName(sq int) string {
	if sq < 0 || sq > 63 {
		return "-"
	}
	return string([]byte{byte('a' + File(sq)), byte('1' + Rank(sq))})
}
func isWhite(p byte) bool { return p >= 'A' && p <= 'Z' }
func isBlack(p byte) bool { return p >= 'a' && p <= 'z' }
func lower(p byte) byte {
	if isWhite(p) {
		return p + 32
	}
	return p
}
func upper(p byte) byte {
	if isBlack(p) {
		return p - 32
	}
	return p
}
func own(p byte, white bool) bool {
	if white {
		return isWhite(p)
	}
	return isBlack(p)
}

// ParseFEN parses a full six-field FEN (fields 5 and 6 optional).
func ParseFEN(fen string) (*Board, error) {
	parts := strings.Fields(fen)
	if len(parts) < 4 {
		return nil, errors.New("fen needs at least 4 fields")
	}
	b := &Board{Ep: -1, Full: 1}
	ranks := strings.Split(parts[0], "/")
	if len(ranks) != 8 {
		return nil, errors.New("fen needs 8 ranks")
	}
	for i, rs := range ranks {
		r := 7 - i
		f := 0
		for _, c := range []byte(rs) {
			if c >= '1' && c <= '8' {
				f += int(c - '0')
				continue
			}
			if !strings.ContainsRune("pnbrqkPNBRQK", rune(c)) || f > 7 {
				return nil, fmt.Errorf("bad rank %q", rs)
			}
			b.Sq[Sq(f, r)] = c
			f++
		}
		if f != 8 {
			return nil, fmt.Errorf("bad rank length %q", rs)
		}
	}
	switch parts[1] {
	case "w":
		b.White = true
	case "b":
		b.White = false
	default:
		return nil, errors.New("bad side")
	}
	if parts[2] != "-" {
		for _, c := range parts[2] {
			switch c {
			case 'K':
				b.Castle[0] = true
			case 'Q':
				b.Castle[1] = true
			case 'k':
				b.Castle[2] = true
			case 'q':
				b.Castle[3] = true
			default:
				return nil, errors.New("bad castling")
			}
		}
	}
	if parts[3] != "-" {
		if len(parts[3]) != 2 || parts[3][0] < 'a' || parts[3][0] > 'h' || parts[3][1] < '1' || parts[3][1] > '8' {
			return nil, errors.New("bad ep")
		}
		b.Ep = Sq(int(parts[3][0]-'a'), int(parts[3][1]-'1'))
	}
	if len(parts) > 4 {
		n, err := strconv.Atoi(parts[4])
		if err != nil {
			return nil, err
		}
		b.Half = n
	}
	if len(parts) > 5 {
		n, err := strconv.Atoi(parts[5])
		if err != nil {
			return nil, err
		}
		b.Full = n
	}
	return b, nil
}

func MustFEN(fen string) *Board {
	b, err := ParseFEN(fen)
	if err != nil {
		panic(fmt.Sprintf("refchess: bad fen %q: %v", fen, err))
	}
	return b
}

func (b *Board) Placement() string {
	var sb strings.Builder
	for r := 7; r >= 0; r-- {
		empty := 0
		for f := 0; f < 8; f++ {
			p := b.Sq[Sq(f, r)]
			if p == 0 {
				empty++
				continue
			}
			if empty > 0 {
				sb.WriteByte(byte('0' + empty))
				empty = 0
			}
			sb.WriteByte(p)
		}
		if empty > 0 {
			sb.WriteByte(byte('0' + empty))
		}
		if r > 0 {
			sb.WriteByte('/')
		}
	}
	return sb.String()
}

func (b *Board) CastleString() string {
	s := ""
	for i, c := range "KQkq" {
		if b.Castle[i] {
			s += string(c)
		}
	}
	if s == "" {
		return "-"
	}
	return s
}

func (b *Board) SideString() string {
	if b.White {
		return "w"
	}
	return "b"
}

// RepKey is the identity of a position for repetition and hashing purposes:
// placement, side to move, castling rights and en-passant field.
func (b *Board) RepKey() string {
	return b.Placement() + " " + b.SideString() + " " + b.CastleString() + " " + SqName(b.Ep)
}

func (b *Board) FEN() string {
	return b.RepKey() + " " + strconv.Itoa(b.Half) + " " + strconv.Itoa(b.Full)
}

var knightD = [8][2]int{{1, 2}, {2, 1}, {2, -1}, {1, -2}, {-1, -2}, {-2, -1}, {-2, 1}, {-1, 2}}
var kingD = [8][2]int{{1, 0}, {1, 1}, {0, 1}, {-1, 1}, {-1, 0}, {-1, -1}, {0, -1}, {1, -1}}
var rookD = [4][2]int{{1, 0}, {0, 1}, {-1, 0}, {0, -1}}
var bishopD = [4][2]int{{1, 1}, {-1, 1}, {-1, -1}, {1, -1}}

func onBoard(f, r int) bool { return f >= 0 && f < 8 && r >= 0 && r < 8 }

// Attackers returns the squares of all pieces of the given colour that attack sq
// (pawns diagonally forward only, no x-rays, king included).  No en-passant
// conventions.
func (b *Board) Attackers(sq int, white bool) []int {
	var res []int
	f0, r0 := File(sq), Rank(sq)
	// pawns: a white pawn on (f±1, r-1) attacks (f, r)
	pr := r0 - 1
	pawn := byte('P')
	if !white {
		pr = r0 + 1
		pawn = 'p'
	}
	for _, df := range []int{-1, 1} {
		if onBoard(f0+df, pr) && b.Sq[Sq(f0+df, pr)] == pawn {
			res = append(res, Sq(f0+df, pr))
		}
	}
	kn, kg, bi, ro, qu := byte('N'), byte('K'), byte('B'), byte('R'), byte('Q')
	if !white {
		kn, kg, bi, ro, qu = 'n', 'k', 'b', 'r', 'q'
	}
	for _, d := range knightD {
		if onBoard(f0+d[0], r0+d[1]) && b.Sq[Sq(f0+d[0], r0+d[1])] == kn {
			res = append(res, Sq(f0+d[0], r0+d[1]))
		}
	}
	for _, d := range kingD {
		if onBoard(f0+d[0], r0+d[1]) && b.Sq[Sq(f0+d[0], r0+d[1])] == kg {
			res = append(res, Sq(f0+d[0], r0+d[1]))
		}
	}
	for _, d := range rookD {
		f, r := f0+d[0], r0+d[1]
		for onBoard(f, r) {
			p := b.Sq[Sq(f, r)]
			if p != 0 {
				if p == ro || p == qu {
					res = append(res, Sq(f, r))
				}
				break
			}
			f, r = f+d[0], r+d[1]
		}
	}
	for _, d := range bishopD {
		f, r := f0+d[0], r0+d[1]
		for onBoard(f, r) {
			p := b.Sq[Sq(f, r)]
			if p != 0 {
				if p == bi || p == qu {
					res = append(res, Sq(f, r))
				}
				break
			}
			f, r = f+d[0], r+d[1]
		}
	}
	return res
}

func (b *Board) IsAttacked(sq int, byWhite bool) bool { return len(b.Attackers(sq, byWhite)) > 0 }

func (b *Board) KingSq(white bool) int {
	k := byte('K')
	if !white {
		k = 'k'
	}
	for i, p := range b.Sq {
		if p == k {
			return i
		}
	}
	return -1
}

// InCheck reports whether the king of the given colour is attacked.
func (b *Board) InCheck(white bool) bool {
	k := b.KingSq(white)
	if k < 0 {
		return false
	}
	return b.IsAttacked(k, !white)
}

// PseudoLegal returns all moves obeying piece movement on the current board but
// ignoring the safety of the own king.  Castling: right present and the squares
// between king and rook empty (king and rook assumed on their home squares when
// the right is present).  En passant: ep field set and a pawn of the mover on an
// adjacent file of the capturing rank.
func (b *Board) PseudoLegal() []Move {
	var ms []Move
	w := b.White
	for from, p := range b.Sq {
		if p == 0 || !own(p, w) {
			continue
		}
		f0, r0 := File(from), Rank(from)
		switch lower(p) {
		case 'p':
			dir, startR, promR := 1, 1, 7
			if !w {
				dir, startR, promR = -1, 6, 0
			}
			add := func(to int) {
				if Rank(to) == promR {
					for _, pr := range []byte{'q', 'r', 'b', 'n'} {
						ms = append(ms, Move{from, to, Promotion, pr})
					}
				} else {
					ms = append(ms, Move{from, to, Normal, 0})
				}
			}
			if onBoard(f0, r0+dir) && b.Sq[Sq(f0, r0+dir)] == 0 {
				add(Sq(f0, r0+dir))
				if r0 == startR && b.Sq[Sq(f0, r0+2*dir)] == 0 {
					ms = append(ms, Move{from, Sq(f0, r0+2*dir), Normal, 0})
				}
			}
			for _, df := range []int{-1, 1} {
				if !onBoard(f0+df, r0+dir) {
					continue
				}
				to := Sq(f0+df, r0+dir)
				t := b.Sq[to]
				if t != 0 && !own(t, w) {
					add(to)
				} else if t == 0 && to == b.Ep {
					// the captured pawn must stand behind the target
					cap := Sq(f0+df, r0)
					want := byte('p')
					if !w {
						want = 'P'
					}
					if b.Sq[cap] == want {
						ms = append(ms, Move{from, to, EnPassant, 0})
					}
				}
			}
		case 'n':
			for _, d := range knightD {
				if onBoard(f0+d[0], r0+d[1]) {
					to := Sq(f0+d[0], r0+d[1])
					if t := b.Sq[to]; t == 0 || !own(t, w) {
						ms = append(ms, Move{from, to, Normal, 0})
					}
				}
			}
		case 'k':
			for _, d := range kingD {
				if onBoard(f0+d[0], r0+d[1]) {
					to := Sq(f0+d[0], r0+d[1])
					if t := b.Sq[to]; t == 0 || !own(t, w) {
						ms = append(ms, Move{from, to, Normal, 0})
					}
				}
			}
			// castling
			if w && from == 4 {
				if b.Castle[0] && b.Sq[5] == 0 && b.Sq[6] == 0 {
					ms = append(ms, Move{4, 6, Castling, 0})
				}
				if b.Castle[1] && b.Sq[3] == 0 && b.Sq[2] == 0 && b.Sq[1] == 0 {
					ms = append(ms, Move{4, 2, Castling, 0})
				}
			}
			if !w && from == 60 {
				if b.Castle[2] && b.Sq[61] == 0 && b.Sq[62] == 0 {
					ms = append(ms, Move{60, 62, Castling, 0})
				}
				if b.Castle[3] && b.Sq[59] == 0 && b.Sq[58] == 0 && b.Sq[57] == 0 {
					ms = append(ms, Move{60, 58, Castling, 0})
				}
			}
		default:
			var dirs [][2]int
			switch lower(p) {
			case 'b':
				dirs = bishopD[:]
			case 'r':
				dirs = rookD[:]
			case 'q':
				dirs = append(append(dirs, bishopD[:]...), rookD[:]...)
			}
			for _, d := range dirs {
				f, r := f0+d[0], r0+d[1]
				for onBoard(f, r) {
					to := Sq(f, r)
					t := b.Sq[to]
					if t == 0 {
						ms = append(ms, Move{from, to, Normal, 0})
					} else {
						if !own(t, w) {
							ms = append(ms, Move{from, to, Normal, 0})
						}
						break
					}
					f, r = f+d[0], r+d[1]
				}
			}
		}
	}
	return ms
}

// Apply returns the successor position.  The move is assumed pseudo-legal.
// The en-passant field is set after every double pawn push (FEN convention).
func (b *Board) Apply(m Move) *Board {
	n := *b
	p := b.Sq[m.From]
	captured := b.Sq[m.To]
	n.Sq[m.From] = 0
	n.Sq[m.To] = p
	n.Ep = -1
	switch m.Kind {
	case Promotion:
		pr := m.Promo
		if b.White {
			pr = upper(pr)
		}
		n.Sq[m.To] = pr
	case EnPassant:
		capSq := Sq(File(m.To), Rank(m.From))
		captured = b.Sq[capSq]
		n.Sq[capSq] = 0
	case Castling:
		switch m.To {
		case 6:
			n.Sq[7], n.Sq[5] = 0, 'R'
		case 2:
			n.Sq[0], n.Sq[3] = 0, 'R'
		case 62:
			n.Sq[63], n.Sq[61] = 0, 'r'
		case 58:
			n.Sq[56], n.Sq[59] = 0, 'r'
		}
	}
	if lower(p) == 'p' && abs(m.To-m.From) == 16 {
		n.Ep = (m.From + m.To) / 2
	}
	// castling rights
	touch := func(sq int) {
		switch sq {
		case 4:
			n.Castle[0], n.Castle[1] = false, false
		case 60:
			n.Castle[2], n.Castle[3] = false, false
		case 7:
			n.Castle[0] = false
		case 0:
			n.Castle[1] = false
		case 63:
			n.Castle[2] = false
		case 56:
			n.Castle[3] = false
		}
	}
	touch(m.From)
	touch(m.To)
	if lower(p) == 'p' || captured != 0 {
		n.Half = 0
	} else {
		n.Half = b.Half + 1
	}
	if !b.White {
		n.Full = b.Full + 1
	}
	n.White = !b.White
	return &n
}

func abs(x int) int {
	if x < 0 {
		return -x
	}
	return x
}

// IsLegal decides whether a pseudo-legal move is legal by the rules.
func (b *Board) IsLegal(m Move) bool {
	if m.Kind == Castling {
		if b.IsAttacked(m.From, !b.White) {
			return false
		}
		mid := (m.From + m.To) / 2
		if b.IsAttacked(mid, !b.White) {
			return false
		}
	}
	n := b.Apply(m)
	return !n.InCheck(b.White)
}

func (b *Board) Legal() []Move {
	var res []Move
	for _, m := range b.PseudoLegal() {
		if b.IsLegal(m) {
			res = append(res, m)
		}
	}
	return res
}

func (b *Board) Perft(d int) uint64 {
	if d == 0 {
		return 1
	}
	ms := b.Legal()
	if d == 1 {
		return uint64(len(ms))
	}
	var n uint64
	for _, m := range ms {
		n += b.Apply(m).Perft(d - 1)
	}
	return n
}

func (m Move) UCI() string {
	s := SqName(m.From) + SqName(m.To)
	if m.Kind == Promotion {
		s += string(m.Promo)
	}
	return s
}

// IsCapture reports whether m captures something (incl. en passant).
func (b *Board) IsCapture(m Move) bool {
	return m.Kind == EnPassant || b.Sq[m.To] != 0
}

// Mirror flips the board vertically and swaps colours, castling rights and the
// side to move; the ep square is flipped with the board.
func (b *Board) Mirror() *Board {
	n := &Board{Ep: -1, Half: b.Half, Full: b.Full, White: !b.White}
	for sq, p := range b.Sq {
		if p == 0 {
			continue
		}
		q := p
		if isWhite(p) {
			q = p + 32
		} else {
			q = p - 32
		}
		n.Sq[Sq(File(sq), 7-Rank(sq))] = q
	}
	n.Castle[0], n.Castle[1], n.Castle[2], n.Castle[3] = b.Castle[2], b.Castle[3], b.Castle[0], b.Castle[1]
	if b.Ep >= 0 {
		n.Ep = Sq(File(b.Ep), 7-Rank(b.Ep))
	}
	return n
}

func MirrorMove(m Move) Move {
	return Move{Sq(File(m.From), 7-Rank(m.From)), Sq(File(m.To), 7-Rank(m.To)), m.Kind, m.Promo}
}

// SanOpts selects the notation variant.
type SanOpts struct {
	NoCaptureX   bool // omit 'x'
	NoCheck      bool // omit '+' / '#'
	NoPromoEq    bool // "e8Q" instead of "e8=Q"
	FullDisambig bool // always give file and rank of origin for pieces
}

// SAN renders m (legal in b) in standard algebraic notation with minimal
// disambiguation (file, else rank, else both).
func (b *Board) SAN(m Move, o SanOpts) string {
	var s string
	p := lower(b.Sq[m.From])
	capture := b.IsCapture(m)
	switch {
	case m.Kind == Castling:
		if File(m.To) == 6 {
			s = "O-O"
		} else {
			s = "O-O-O"
		}
	case p == 'p':
		if capture {
			s = string(byte('a' + File(m.From)))
			if !o.NoCaptureX {
				s += "x"
			}
		}
		s += SqName(m.To)
		if m.Kind == Promotion {
			if !o.NoPromoEq {
				s += "="
			}
			s += string(upper(m.Promo))
		}
	default:
		s = string(upper(p))
		// disambiguation among legal moves of the same piece type to the same square
		sameFile, sameRank, others := false, false, false
		for _, x := range b.Legal() {
			if x.To == m.To && x.From != m.From && b.Sq[x.From] == b.Sq[m.From] {
				others = true
				if File(x.From) == File(m.From) {
					sameFile = true
				}
				if Rank(x.From) == Rank(m.From) {
					sameRank = true
				}
			}
		}
		if o.FullDisambig {
			s += SqName(m.From)
		} else if others {
			switch {
			case !sameFile:
				s += string(byte('a' + File(m.From)))
			case !sameRank:
				s += string(byte('1' + Rank(m.From)))
			default:
				s += SqName(m.From)
			}
		}
		if capture && !o.NoCaptureX {
			s += "x"
		}
		s += SqName(m.To)
	}
	if !o.NoCheck {
		n := b.Apply(m)
		if n.InCheck(n.White) {
			if len(n.Legal()) == 0 {
				s += "#"
			} else {
				s += "+"
			}
		}
	}
	return s
}

// Validate checks the basic legality of a position: one king per side, side not
// to move not in check, no pawns on the back ranks.
func (b *Board) Validate() error {
	wk, bk := 0, 0
	for sq, p := range b.Sq {
		switch p {
		case 'K':
			wk++
		case 'k':
			bk++
		case 'P', 'p':
			if Rank(sq) == 0 || Rank(sq) == 7 {
				return errors.New("pawn on back rank")
			}
		}
	}
	if wk != 1 || bk != 1 {
		return errors.New("king count")
	}
	if b.InCheck(!b.White) {
		return errors.New("side not to move in check")
	}
	return nil
}
