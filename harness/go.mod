module github.com/frankkopp/FrankyGo/verifh

go 1.14

require (
	github.com/anishathalye/porcupine v1.3.0
	github.com/frankkopp/FrankyGo v0.0.0
)

replace github.com/frankkopp/FrankyGo => /repo
